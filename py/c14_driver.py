#!/usr/bin/env python3
"""C14 driver: replays emitted cases against the Python extension built from /repo.
usage: c14_driver.py <dir containing grex.so> <cases.jsonl> <results.jsonl>
Each result line: {id, out|error{type,msg}, compiled, compile_error, fullmatch:[bool]}"""
import json, re, sys

sys.path.insert(0, sys.argv[1])
import grex  # noqa: E402

SETTERS = {
    "d": lambda b: b.with_conversion_of_digits(),
    "D": lambda b: b.with_conversion_of_non_digits(),
    "s": lambda b: b.with_conversion_of_whitespace(),
    "S": lambda b: b.with_conversion_of_non_whitespace(),
    "w": lambda b: b.with_conversion_of_words(),
    "W": lambda b: b.with_conversion_of_non_words(),
    "r": lambda b: b.with_conversion_of_repetitions(),
    "i": lambda b: b.with_case_insensitive_matching(),
    "g": lambda b: b.with_capturing_groups(),
    "x": lambda b: b.with_verbose_mode(),
    "na": lambda b: b.without_start_anchor(),
    "ne": lambda b: b.without_end_anchor(),
}


class Shouting(str):
    """A str whose str() and repr() differ from its value."""

    def __str__(self):
        return "STR:" + str.__str__(self).upper()

    def __repr__(self):
        return "REPR"


def run_case(c):
    res = {"id": c["id"]}
    try:
        sp = c.get("special")
        if sp == "empty_list":
            grex.RegExpBuilder([])
            res["out"] = "<no exception>"
            return res
        if sp == "empty_list_classmethod":
            grex.RegExpBuilder.from_test_cases([])
            res["out"] = "<no exception>"
            return res
        # the elements are what the strings ARE, not what str() makes of them: every third case passes instances
        # of a str subclass whose __str__ / __repr__ say something else (as members of `class X(str, Enum)` do)
        tcs_in = c["test_cases"]
        if c["id"] % 3 == 1:
            tcs_in = [Shouting(t) for t in tcs_in]
        b = grex.RegExpBuilder(tcs_in) if c["id"] % 2 == 0 else grex.RegExpBuilder.from_test_cases(tcs_in)
        if "ops" in c:
            # call history: apply exactly this sequence of setter calls, then build -- in three calling styles that
            # the fluent API makes equivalent: statements on one object; a chain through the returned objects with
            # build() on the ORIGINAL object; the same chain with build() on the LAST returned object
            def apply(b, op):
                name = op[0]
                if name in SETTERS:
                    return SETTERS[name](b)
                if name == "e":
                    return b.with_escaping_of_non_ascii_chars(bool(op[1]))
                if name == "nane":
                    return b.without_anchors()
                if name == "minrep":
                    return b.with_minimum_repetitions(op[1])
                if name == "minlen":
                    return b.with_minimum_substring_length(op[1])
                if name in ("minrep_bad", "minlen_bad"):
                    try:
                        if name == "minrep_bad":
                            b.with_minimum_repetitions(op[1])
                        else:
                            b.with_minimum_substring_length(op[1])
                    except ValueError:
                        return b
                    raise RuntimeError("no ValueError for " + name)
                if name == "build":
                    b.build()
                    return b
                raise RuntimeError("unknown op " + name)

            for op in c["ops"]:
                apply(b, op)
            out = b.build()
            res["out"] = out
            res["out_again"] = b.build()
            b2 = grex.RegExpBuilder(c["test_cases"])
            cur = b2
            for op in c["ops"]:
                cur = apply(cur, op)
            res["out_chain_original"] = b2.build()
            res["out_chain_last"] = cur.build()
            return res
        flags = c["flags"]
        # setter order must not matter: every other pair of cases applies the setters in reverse order,
        # and escaping is set before or after the other setters
        order = list(flags) if (c["id"] // 3) % 4 < 2 else list(reversed(flags))
        if "e" in flags and (c["id"] // 3) % 2 == 0:
            b.with_escaping_of_non_ascii_chars("u" not in flags)  # overwritten below: last call wins
        for f in order:
            if f in SETTERS:
                r = SETTERS[f](b)
                if r is not b:
                    res["setter_identity"] = False
        if "e" in flags:
            b.with_escaping_of_non_ascii_chars("u" in flags)
        if sp in ("minrep", "minlen"):
            b.with_conversion_of_repetitions()
            if sp == "minrep":
                b.with_minimum_repetitions(c["value"])
            else:
                b.with_minimum_substring_length(c["value"])
            res["out"] = b.build()
            return res
        b.with_minimum_repetitions(c["minrep"])
        b.with_minimum_substring_length(c["minlen"])
        out = b.build()
        res["out"] = out
        res["out_again"] = b.build()
    except BaseException as e:  # pyo3 panics surface as BaseException subclasses
        res["error"] = {"type": type(e).__name__, "msg": str(e)[:300]}
        return res
    try:
        cre = re.compile(out)
        res["compiled"] = True
        res["fullmatch"] = [cre.fullmatch(t) is not None for t in c["test_cases"]]
    except Exception as e:
        res["compiled"] = False
        res["compile_error"] = str(e)[:200]
    return res


def main():
    # optional 4th argument "reverse": same cases, opposite processing order (the extension must not care);
    # results are always written in the order of the case file
    with open(sys.argv[2], encoding="utf-8") as f:
        cases = [json.loads(line) for line in f]
    order = list(range(len(cases)))
    if len(sys.argv) > 4 and sys.argv[4] == "reverse":
        order.reverse()
    results = [None] * len(cases)
    for i in order:
        results[i] = run_case(cases[i])
    with open(sys.argv[3], "w", encoding="utf-8") as g:
        for r in results:
            g.write(json.dumps(r, ensure_ascii=True) + "\n")


if __name__ == "__main__":
    main()
