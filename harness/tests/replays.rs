//! Plain tests (no enumerator): the committed replay files of the open known findings still reproduce on
//! /repo, and the two smallest historical violations that were repaired no longer do.
use vh::cfgs::*;

fn full_match(pattern: &str, s: &str) -> bool {
    regex::Regex::new(&format!("^(?:{pattern})$")).unwrap().is_match(s)
}

#[test]
fn open_finding_epsilon_still_reproduces() {
    let out = Cfg::new(0).build(&["".to_string(), "a".to_string()]).unwrap();
    assert!(!full_match(&out, ""), "KF-epsilon-dropped no longer reproduces ({out}): update known_findings.json");
}

#[test]
fn open_finding_range_merge_still_reproduces() {
    let out = Cfg::new(R).build(&["ba".to_string(), "bb".to_string()]).unwrap();
    assert!(full_match(&out, "b"), "KF-range-merge no longer reproduces ({out}): update known_findings.json");
}

#[test]
fn repaired_verbose_whitespace_stays_repaired() {
    let out = Cfg::new(X).build(&["\u{a0}".to_string()]).unwrap();
    assert!(full_match(&out, "\u{a0}") && !full_match(&out, "\t"), "{out}");
}

#[test]
fn repaired_search_with_end_anchor_off_stays_repaired() {
    let t: Vec<String> = ["a", "ba", "aab", "aba"].iter().map(|s| s.to_string()).collect();
    let out = Cfg::new(NE).build(&t).unwrap();
    let re = regex::Regex::new(&out).unwrap();
    for s in &t {
        assert_eq!(re.find(s).map(|m| (m.start(), m.end())), Some((0, s.len())), "{out} on {s}");
    }
}
