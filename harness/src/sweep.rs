//! Enumeration driver: every (set, settings) pair of a list of (universe, lattice slice) blocks.
use crate::cfgs::Cfg;
use crate::core::Ctx;
use crate::ev::par_for;
use crate::space::Universe;
use serde_json::json;

pub struct Block {
    pub uni: Universe,
    pub cfgs: Vec<Cfg>,
    pub cfg_desc: String,
}

impl Block {
    pub fn new(uni: Universe, cfgs: Vec<Cfg>, cfg_desc: &str) -> Block {
        Block { uni, cfgs, cfg_desc: cfg_desc.to_string() }
    }
}

/// Run `f` on every case of every block; records the block sizes in the evidence.
pub fn sweep<F: Fn(&Ctx, &[String], &Cfg) + Sync>(ctx: &Ctx, blocks: &[Block], f: F) {
    for b in blocks {
        let t0 = std::time::Instant::now();
        par_for(b.uni.len(), |i| {
            let tcs = b.uni.set(i);
            for cfg in &b.cfgs {
                f(ctx, &tcs, cfg);
            }
        });
        ctx.run.space(json!({
            "universe": b.uni.name, "words": b.uni.words.len(), "sets": b.uni.len(),
            "settings": b.cfg_desc, "settings_count": b.cfgs.len(),
            "cases": b.uni.len() * b.cfgs.len(), "wall_s": (t0.elapsed().as_secs_f64() * 100.0).round() / 100.0,
        }));
        if std::env::var("VERIF_PROGRESS").is_ok() {
            eprintln!("  block {} x {} ({} cases) {:.1}s", b.uni.name, b.cfg_desc, b.uni.len() * b.cfgs.len(), t0.elapsed().as_secs_f64());
        }
    }
}
