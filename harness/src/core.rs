//! Shared per-case machinery: build, parse, language comparison with conformance replay.
use crate::cfgs::*;
use crate::ev::{Run, Violation};
use crate::lang::{self, Diff, Stats};
use crate::spec::Classes;
use regex_syntax::hir::{Hir, Look};
use serde_json::{json, Value};
use std::sync::atomic::Ordering;

pub struct Ctx {
    pub k: Classes,
    pub run: Run,
}

impl Ctx {
    pub fn new(prop: &str, tier: &str, level: &str) -> Ctx {
        Ctx { k: Classes::new(), run: Run::new(prop, tier, level) }
    }
}

/// Text the regex crate can take: colour stripped, surrogate escapes re-paired (DESIGN §2.6).
pub fn prep(out: &str, cfg: &Cfg) -> Result<String, String> {
    let mut s = out.to_string();
    if cfg.has(C) {
        s = lang::strip_sgr(&s);
    }
    if cfg.has(U) {
        s = lang::repair_surrogates(&s)?;
    }
    Ok(s)
}

/// HIR of the full-match language of `pat`: anchors that the settings switched off are re-added.
pub fn full_hir(pat: &str, cfg: &Cfg) -> Result<Hir, String> {
    let h = lang::parse(pat)?;
    let mut parts = vec![];
    if cfg.has(NA) {
        parts.push(Hir::look(Look::Start));
    }
    parts.push(h);
    if cfg.has(NE) {
        parts.push(Hir::look(Look::End));
    }
    Ok(if parts.len() == 1 { parts.pop().unwrap() } else { Hir::concat(parts) })
}

pub enum Built {
    Ok { out: String, text: String, hir: Hir },
    Panic(String),
    Invalid { out: String, err: String },
}

pub fn build_lang(tcs: &[String], cfg: &Cfg) -> Built {
    let out = match cfg.build(tcs) {
        Ok(o) => o,
        Err(m) => return Built::Panic(m),
    };
    let text = match prep(&out, cfg) {
        Ok(t) => t,
        Err(e) => return Built::Invalid { out, err: e },
    };
    match full_hir(&text, cfg) {
        Ok(hir) => Built::Ok { out, text, hir },
        Err(e) => Built::Invalid { out, err: e },
    }
}

/// Product exploration of A (automaton of the pattern text `a_text`) against B, with every reached
/// product state's access string replayed on the real `regex::Regex` compiled from `a_text`.
/// A disagreement between my automaton and the real engine is a machinery error.
pub fn leq_conf(run: &Run, a_text: &str, a: &Hir, b: &Hir) -> Result<(Option<Diff>, Stats), String> {
    leq_conf_tcs(run, a_text, a, b, &[])
}

/// As `leq_conf`; when one side contains a construct the automaton construction does not model (a word boundary,
/// which the unchanged tree never emits but a broken one may, e.g. an unescaped backslash before `b`), fall back to
/// the real engine on both sides over the edit-distance-1 neighbourhood of the test cases. A difference found that
/// way is a real difference (both verdicts come from the regex crate); no difference found is NOT equality, so the
/// original machinery error stands.
pub fn leq_conf_tcs(run: &Run, a_text: &str, a: &Hir, b: &Hir, tcs: &[String]) -> Result<(Option<Diff>, Stats), String> {
    let (d, st) = match lang::compare(a, b, true) {
        Ok(x) => x,
        Err(e) if e.starts_with("unsupported") && !tcs.is_empty() => {
            return match engine_fallback(a, b, tcs) {
                Some(d) => Ok((Some(d), Stats::default())),
                None => Err(format!("{e} (and the real-engine fallback over the neighbourhood of the test cases found no difference)")),
            };
        }
        Err(e) => return Err(e),
    };
    run.add_stats(&st);
    if std::env::var("VERIF_NOCONF").is_ok() {
        return Ok((d, st));
    }
    let re = lang::compile_real(&lang::wrap_text(a_text)).map_err(|e| format!("real engine rejects {:?}: {e}", a_text))?;
    for (w, acc) in &st.access {
        if re.is_match(w) != *acc {
            return Err(format!("CONFORMANCE: automaton says {} but regex crate says {} for pattern {:?} on {:?}", acc, !acc, a_text, w));
        }
    }
    run.traces.fetch_add(st.access.len() as u64, Ordering::Relaxed);
    Ok((d, st))
}

fn engine_fallback(a: &Hir, b: &Hir, tcs: &[String]) -> Option<Diff> {
    use regex_automata::meta::Regex;
    let anch = |h: &Hir| Hir::concat(vec![Hir::look(Look::Start), h.clone(), Hir::look(Look::End)]);
    let ra = Regex::builder().build_from_hir(&anch(a)).ok()?;
    let rb = Regex::builder().build_from_hir(&anch(b)).ok()?;
    let mut sigma: Vec<char> = tcs.iter().flat_map(|t| t.chars()).collect();
    sigma.extend(['x', '0', ' ', '\n', '.', '\u{e9}', '_']);
    sigma.sort();
    sigma.dedup();
    sigma.truncate(24);
    let mut probe = |w: String| -> Option<Diff> {
        let (ia, ib) = (ra.is_match(w.as_str()), rb.is_match(w.as_str()));
        if ia != ib {
            Some(Diff { witness: w, in_a: ia, in_b: ib })
        } else {
            None
        }
    };
    for t in tcs {
        let cs: Vec<char> = t.chars().collect();
        if let Some(d) = probe(t.clone()) {
            return Some(d);
        }
        for i in 0..=cs.len() {
            if i < cs.len() {
                let mut del = cs.clone();
                del.remove(i);
                if let Some(d) = probe(del.iter().collect()) {
                    return Some(d);
                }
            }
            for c in &sigma {
                let mut insr = cs.clone();
                insr.insert(i, *c);
                if let Some(d) = probe(insr.iter().collect()) {
                    return Some(d);
                }
                if i < cs.len() && cs[i] != *c {
                    let mut sub = cs.clone();
                    sub[i] = *c;
                    if let Some(d) = probe(sub.iter().collect()) {
                        return Some(d);
                    }
                }
            }
        }
    }
    None
}

/// Same without conformance (both sides are models or stage snapshots).
pub fn leq(run: &Run, a: &Hir, b: &Hir) -> Result<Option<Diff>, String> {
    let (d, st) = lang::compare(a, b, false)?;
    run.add_stats(&st);
    Ok(d)
}

pub fn viol(prop: &str, kind: &str, sig: String, tcs: &[String], cfg: &Cfg, out: &str, detail: Value) -> Violation {
    Violation { property: prop.to_string(), kind: kind.to_string(), sig, tcs: tcs.to_vec(), cfg: *cfg, out: out.to_string(), detail }
}

pub fn diff_detail(d: &Diff, a_name: &str, b_name: &str) -> Value {
    json!({"witness": d.witness, "witness_scalars": d.witness.chars().map(|c| format!("U+{:04X}", c as u32)).collect::<Vec<_>>(),
           format!("in_{a_name}"): d.in_a, format!("in_{b_name}"): d.in_b})
}

pub fn case_json(tcs: &[String], cfg: &Cfg, out: &str) -> Value {
    json!({"test_cases": tcs, "settings": cfg.name(), "output": out})
}

/// Shared by C02/C03/C04: L(build(tcs, cfg)) = spec(tcs, cfg), decided by complete product exploration.
pub fn check_spec_eq(ctx: &Ctx, prop: &str, tcs: &[String], cfg: &Cfg) {
    let run = &ctx.run;
    run.eval();
    if crate::space::nontrivial(tcs) {
        run.mark_nontrivial(crate::ev::hash_case(tcs, cfg));
    }
    let (out, text, hir) = match build_lang(tcs, cfg) {
        Built::Ok { out, text, hir } => (out, text, hir),
        Built::Panic(m) => {
            let sig = format!("panic:{}", m.chars().take(50).collect::<String>());
            return crate::findings::report(ctx, viol(prop, "panic", sig, tcs, cfg, "", json!({"panic": m})));
        }
        Built::Invalid { out, err } => {
            return crate::findings::report(ctx, viol(prop, "invalid", format!("invalid:{}", err.chars().take(50).collect::<String>()), tcs, cfg, &out, json!({"error": err})));
        }
    };
    let sp = crate::spec::spec(tcs, cfg, &ctx.k);
    match leq_conf_tcs(run, &text, &hir, &sp, tcs) {
        Err(e) => run.machinery_error(e),
        Ok((None, _)) => {
            if run.want_sample() {
                run.sample(case_json(tcs, cfg, &out));
            }
        }
        Ok((Some(d), _)) => {
            let dir = if d.in_a { "over-match" } else { "under-match" };
            let sig = format!("{dir} flags={}", cfg.flag_names().join(","));
            let mut det = diff_detail(&d, "output", "spec");
            det["expected_in_language"] = json!(d.in_b);
            crate::findings::report(ctx, viol(prop, "lang", sig, tcs, cfg, &out, det));
        }
    }
}

/// Differential check shared by C05/C06/C08/C11: L(build(tcs, a)) = L(build(tcs, b)).
/// Returns the two outputs when both builds succeeded (for further structural checks).
pub fn check_diff(ctx: &Ctx, prop: &str, tcs: &[String], a: &Cfg, b: &Cfg, what: &str) -> Option<(String, String)> {
    let run = &ctx.run;
    run.eval();
    if crate::space::nontrivial(tcs) {
        run.mark_nontrivial(crate::ev::hash_case(tcs, a) ^ crate::ev::hash_case(tcs, b).rotate_left(17));
    }
    let mut side = |cfg: &Cfg, name: &str| -> Option<(String, String, Hir)> {
        match build_lang(tcs, cfg) {
            Built::Ok { out, text, hir } => Some((out, text, hir)),
            Built::Panic(m) => {
                let sig = format!("panic({name}):{}", m.chars().take(50).collect::<String>());
                crate::findings::report(ctx, viol(prop, "panic", sig, tcs, cfg, "", json!({"panic": m})));
                None
            }
            Built::Invalid { out, err } => {
                crate::findings::report(ctx, viol(prop, "invalid", format!("invalid({name}):{}", err.chars().take(50).collect::<String>()), tcs, cfg, &out, json!({"error": err})));
                None
            }
        }
    };
    let sa = side(a, "with");
    let sb = side(b, "without");
    let ((oa, ta, ha), (ob, _tb, hb)) = (sa?, sb?);
    match leq_conf_tcs(run, &ta, &ha, &hb, tcs) {
        Err(e) => run.machinery_error(e),
        Ok((None, _)) => {
            if run.want_sample() {
                run.sample(json!({"test_cases": tcs, "with": a.name(), "output_with": oa, "without": b.name(), "output_without": ob}));
            }
        }
        Ok((Some(d), _)) => {
            let dir = if d.in_a { "accepts-more" } else { "accepts-less" };
            let sig = format!("{what}:{dir} flags={}", a.flag_names().join(","));
            let mut det = diff_detail(&d, "with", "without");
            det["other_settings"] = b.to_json();
            det["other_output"] = json!(ob);
            det["expected_in_language"] = json!(d.in_b);
            crate::findings::report(ctx, viol(prop, "lang-diff", sig, tcs, a, &oa, det));
        }
    }
    Some((oa, ob))
}
