//! Universes of test-case sets.
pub fn words(sigma: &[&str], k: usize, with_empty: bool) -> Vec<String> {
    let mut out = vec![];
    if with_empty {
        out.push(String::new());
    }
    let mut layer = vec![String::new()];
    for _ in 0..k {
        let mut next = vec![];
        for w in &layer {
            for s in sigma {
                next.push(format!("{w}{s}"));
            }
        }
        out.extend(next.iter().cloned());
        layer = next;
    }
    out
}

/// All non-empty subsets of 0..n with at most `maxset` members (0 = unbounded), as index lists.
pub fn subsets(n: usize, maxset: usize) -> Vec<Vec<usize>> {
    let mut out = vec![];
    if maxset == 0 || maxset >= n {
        assert!(n <= 24, "universe too large for full power set");
        for m in 1u32..(1u32 << n) {
            out.push((0..n).filter(|i| m & (1 << i) != 0).collect());
        }
        return out;
    }
    fn rec(n: usize, start: usize, cur: &mut Vec<usize>, maxset: usize, out: &mut Vec<Vec<usize>>) {
        if !cur.is_empty() {
            out.push(cur.clone());
        }
        if cur.len() == maxset {
            return;
        }
        for i in start..n {
            cur.push(i);
            rec(n, i + 1, cur, maxset, out);
            cur.pop();
        }
    }
    rec(n, 0, &mut vec![], maxset, &mut out);
    out
}

/// A named universe: the word list and the subsets (by index) to explore.
pub struct Universe {
    pub name: String,
    pub words: Vec<String>,
    pub sets: Vec<Vec<usize>>,
}

impl Universe {
    pub fn new(name: &str, sigma: &[&str], k: usize, maxset: usize, with_empty: bool) -> Universe {
        let words = words(sigma, k, with_empty);
        let sets = subsets(words.len(), maxset);
        Universe { name: format!("{name}(k={k},m={},{})", if maxset == 0 { "all".to_string() } else { maxset.to_string() }, if with_empty { "with eps" } else { "no eps" }), words, sets }
    }
    pub fn from_words(name: &str, words: Vec<String>, maxset: usize) -> Universe {
        let sets = subsets(words.len(), maxset);
        Universe { name: name.to_string(), words, sets }
    }
    pub fn set(&self, i: usize) -> Vec<String> {
        self.sets[i].iter().map(|&j| self.words[j].clone()).collect()
    }
    pub fn len(&self) -> usize {
        self.sets.len()
    }
}

// Adversarial alphabets (DESIGN §3).
pub const A_META: &[&str] = &["(", ")", "[", "]", "{", "}", "+", "*", "-", ".", "?", "|", "^", "$", "\\", "#", " "];
pub const A_WS: &[&str] = &[
    "\t", "\n", "\u{b}", "\u{c}", "\r", "\u{85}", "\u{a0}", "\u{1680}", "\u{2003}", "\u{2028}", "\u{2029}", "\u{202f}", "\u{205f}",
    "\u{3000}", "\u{200b}", " ", "#",
];
pub const A_GC: &[&str] = &[
    "\\", "\u{1f3fb}", "\u{d4e}", "\u{1f1e9}", "\u{1f1ea}", "\u{1100}", "\u{1161}", "\u{11a8}", "\u{301}", "\u{200d}", "\u{1f44d}",
    "a\u{1f3fb}", "\u{1f1e9}\u{1f1ea}", "\u{1100}\u{1161}\u{11a8}", "\u{1f44d}\u{1f3fb}", "a",
];
pub const A_CASE: &[&str] = &[
    "a", "A", "\u{130}", "\u{131}", "\u{1e9e}", "\u{df}", "\u{3a3}", "\u{3c3}", "\u{3c2}", "\u{212a}", "k", "\u{13a0}", "\u{ab70}",
    "\u{1c5}",
];
pub const A_CLS: &[&str] = &["a", "1", " ", "-", "\u{663}", "_", "\u{e9}"];
pub const A_ESC: &[&str] = &[
    "\u{7f}", "\u{80}", "\u{e9}", "\u{100}", "\u{fff}", "\u{1000}", "\u{ffff}", "\u{10000}", "\u{fffff}", "\u{100000}", "\u{10ffff}",
    "\u{1f4a9}",
];
/// Runs of consecutive code points whose end points are special inside a bracketed class (Z [ \ ] ^ _ `, + , - . /, tab LF VT, # $ %).
pub const A_CONS: &[&str] = &["Z", "[", "\\", "]", "^", "_", "`", "+", ",", "-", ".", "/", "\t", "\n", "\u{b}", "#", "$", "%"];
/// Metacharacters next to characters that join them into one multi-scalar grapheme cluster without being
/// marks: emoji modifier, Thai SARA AM, halfwidth sound mark (Extend / SpacingMark of category Sk, Lo, Lm),
/// Prepend characters of category Lo.
pub const A_GCM: &[&str] = &[".", "+", "|", "(", "-", "a", "\u{1f3fb}", "\u{e33}", "\u{ff9e}", "\u{d4e}", "\u{111c2}", "\\"];
pub const A_SGR: &[&str] = &["\u{1b}", "[", "m", "0", ";", "1", "$", ")", "("];

/// Non-triviality rule (DESIGN §3).
pub fn nontrivial(tcs: &[String]) -> bool {
    if tcs.iter().any(|t| t.chars().any(|c| !c.is_ascii_alphanumeric())) {
        return true;
    }
    if tcs.len() >= 2 {
        if tcs.iter().any(|t| t.is_empty()) {
            return true;
        }
        for (i, a) in tcs.iter().enumerate() {
            for b in &tcs[i + 1..] {
                let (ac, bc): (Vec<char>, Vec<char>) = (a.chars().collect(), b.chars().collect());
                if ac.first() == bc.first() || ac.last() == bc.last() {
                    return true;
                }
            }
        }
    }
    // repeated substring inside one string
    for t in tcs {
        let c: Vec<char> = t.chars().collect();
        for l in 1..=c.len() / 2 {
            for i in 0..=c.len() - 2 * l {
                if c[i..i + l] == c[i + l..i + 2 * l] {
                    return true;
                }
            }
        }
    }
    false
}

/// Two prefixes x suffix symbols whose class-converted labels coincide while their sort positions differ:
/// '1' < ':' < 'A' < 'a' in byte order, and U+0663 (a digit, 2 bytes) sorts after every 2-byte string. Equivalent
/// trie states then receive their out-edges in different orders.
pub fn u_prefix_suffix() -> Universe {
    let mut w = vec![];
    for p in ["x", "y"] {
        for s in ["1", ":", "A", "a", "\u{663}"] {
            w.push(format!("{p}{s}"));
        }
    }
    Universe::from_words("U_ps{x,y}x{1,:,A,a,U+0663} all subsets", w, 0)
}

/// Several prefixes followed by the same unit repeated 1..=4 times: every combination of repeat counts per prefix
/// (gaps, adjacent counts, identical and different count sets under different prefixes).
pub fn u_prefix_counts() -> Universe {
    let mut w = vec![];
    for p in ["y", "z", "bc"] {
        for n in 1..=4 {
            w.push(format!("{p}{}", "x".repeat(n)));
        }
    }
    Universe::from_words("U_pc{y,z,bc}x^{1..4} all subsets", w, 0)
}

pub fn u_prefix_counts_unit() -> Universe {
    let mut w = vec![];
    for p in ["y", "z"] {
        for n in 1..=4 {
            w.push(format!("{p}{}", "ab".repeat(n)));
        }
        w.push(format!("{p}c"));
    }
    Universe::from_words("U_pc{y,z}(ab)^{1..4}+c all subsets", w, 0)
}

/// Large tries: the complete set Sigma^{1..=k} with up to `holes` words removed (k = 6 over two letters gives
/// 126 strings and 127 trie states), so that the minimiser and the elimination work on automata far larger than
/// any small-subset universe produces.
pub fn u_full_minus(sigma: &[&str], k: usize, holes: usize) -> Universe {
    let all = words(sigma, k, false);
    let n = all.len();
    let mut sets: Vec<Vec<usize>> = vec![(0..n).collect()];
    if holes >= 1 {
        for i in 0..n {
            sets.push((0..n).filter(|x| *x != i).collect());
        }
    }
    if holes >= 2 {
        for i in 0..n {
            for j in i + 1..n {
                sets.push((0..n).filter(|x| *x != i && *x != j).collect());
            }
        }
    }
    Universe { name: format!("U_full{{{}}}^<={k} minus <={holes} words", sigma.join(",")), words: all, sets }
}

/// Medium-size structured sets: for every word w of Sigma^{k}, the set of all words of Sigma^{1..=k} that do NOT
/// start with w's first half plus all words that end with w's second half -- irregular tries of 60-120 states.
pub fn u_irregular(sigma: &[&str], k: usize) -> Universe {
    let all = words(sigma, k, false);
    let tops: Vec<String> = all.iter().filter(|w| w.chars().count() == k).cloned().collect();
    let mut sets = vec![];
    for t in &tops {
        let cs: Vec<char> = t.chars().collect();
        let (h1, h2): (String, String) = (cs[..k / 2].iter().collect(), cs[k / 2..].iter().collect());
        let set: Vec<usize> = (0..all.len()).filter(|i| !all[*i].starts_with(&h1) || all[*i].ends_with(&h2)).collect();
        if !set.is_empty() {
            sets.push(set);
        }
    }
    sets.sort();
    sets.dedup();
    Universe { name: format!("U_irregular{{{}}}^<={k}", sigma.join(",")), words: all, sets }
}

/// A fixed pseudo-random corpus of LARGE sets (many, long test cases), generated from VERIF_SEED by a plain LCG.
/// This is the one place where the input space is sampled instead of enumerated: tries with more than ~60 states
/// are out of reach of any complete small-scope universe. The corpus itself is then checked exhaustively (every set),
/// and the evidence labels it as a corpus, not as a bound.
pub fn u_corpus(name: &str, seed: u64, n_sets: usize, sigma: &[&str], strings: (usize, usize), len: (usize, usize)) -> Universe {
    let mut st = seed.wrapping_mul(0x9E3779B97F4A7C15).wrapping_add(0x1234_5678_9abc_def1);
    let mut next = move |m: usize| -> usize {
        st = st.wrapping_mul(6364136223846793005).wrapping_add(1442695040888963407);
        ((st >> 33) as usize) % m
    };
    let mut words: Vec<String> = vec![];
    let mut index: std::collections::HashMap<String, usize> = std::collections::HashMap::new();
    let mut sets = vec![];
    for _ in 0..n_sets {
        let k = strings.0 + next(strings.1 - strings.0 + 1);
        let mut set = vec![];
        for _ in 0..k {
            let l = len.0 + next(len.1 - len.0 + 1);
            let w: String = (0..l).map(|_| sigma[next(sigma.len())]).collect();
            let id = *index.entry(w.clone()).or_insert_with(|| {
                words.push(w.clone());
                words.len() - 1
            });
            if !set.contains(&id) {
                set.push(id);
            }
        }
        sets.push(set);
    }
    Universe { name: format!("{name}: corpus of {n_sets} sets, {}-{} strings of length {}-{} over {{{}}}, LCG seed {seed}", strings.0, strings.1, len.0, len.1, sigma.join(",")), words, sets }
}

pub fn verif_seed() -> u64 {
    std::env::var("VERIF_SEED").ok().and_then(|s| s.parse().ok()).unwrap_or(0)
}

/// The same multi-token unit repeated n and n+1 (and n+2) times in different test cases, optionally after a prefix:
/// the trie merges their counts into a range and has to keep the unit's inner structure consistent with the thresholds.
pub fn u_unit_counts() -> Universe {
    let mut w = vec![];
    for unit in ["aab", "abb", "aabb", "11a"] {
        for n in 1..=4 {
            w.push(unit.repeat(n));
        }
    }
    Universe::from_words("U_uc{aab,abb,aabb,11a}^{1..4} subsets of size <=3", w, 3)
}

/// One representative per "kind" of scalar that some stage of the pipeline treats specially: every ASCII
/// punctuation character, controls, letters and digits at the ends of their ranges, and non-ASCII scalars at
/// the boundaries of the escaping / class / cluster tables.
pub fn kinds() -> Vec<String> {
    let mut k: Vec<String> = vec![];
    for c in 0x20u8..0x7f {
        let ch = c as char;
        if !ch.is_ascii_alphanumeric() {
            k.push(ch.to_string());
        }
    }
    for s in [
        "a", "z", "A", "Z", "0", "9", "\0", "\t", "\n", "\r", "\u{1b}", "\u{7f}", "\u{80}", "\u{a0}", "\u{df}", "\u{e9}", "\u{17f}", "\u{301}",
        "\u{663}", "\u{e33}", "\u{200d}", "\u{2028}", "\u{212a}", "\u{d7ff}", "\u{e000}", "\u{ffff}", "\u{10000}", "\u{1f3fb}", "\u{10ffff}",
    ] {
        k.push(s.to_string());
    }
    k
}

/// Every unordered pair {p,q} of kinds: all sets of at most `m` words of {p,q}^{<=k}. The pairs are the bound:
/// whatever special treatment one kind gets is exercised next to, before and after every other kind.
pub fn u_kind_pairs(k: usize, m: usize, with_empty: bool) -> Universe {
    let ks = kinds();
    let mut words_all: Vec<String> = vec![];
    let mut index: std::collections::HashMap<String, usize> = std::collections::HashMap::new();
    let mut sets: Vec<Vec<usize>> = vec![];
    let mut seen: std::collections::HashSet<Vec<usize>> = std::collections::HashSet::new();
    for i in 0..ks.len() {
        for j in i + 1..ks.len() {
            let ws = words(&[ks[i].as_str(), ks[j].as_str()], k, with_empty);
            let ids: Vec<usize> = ws
                .iter()
                .map(|w| {
                    *index.entry(w.clone()).or_insert_with(|| {
                        words_all.push(w.clone());
                        words_all.len() - 1
                    })
                })
                .collect();
            for s in subsets(ids.len(), m) {
                let mut set: Vec<usize> = s.iter().map(|x| ids[*x]).collect();
                set.sort();
                if seen.insert(set.clone()) {
                    sets.push(set);
                }
            }
        }
    }
    Universe { name: format!("U_kindpairs: {{p,q}}^<={k} for all {} pairs of {} scalar kinds, sets of <={m}{}", ks.len() * (ks.len() - 1) / 2, ks.len(), if with_empty { ", with eps" } else { "" }), words: words_all, sets }
}

/// Runs of consecutive code points: for every start c in ASCII and around the table boundaries, the test cases
/// c, c+1, .., c+n-1 (n = 2..=5) as single characters, alone, after a common prefix and before a common suffix.
/// Character-class range formatting ([c-d]) sees every possible pair of end points.
pub fn u_runs() -> Universe {
    let mut starts: Vec<u32> = (0u32..0x80).collect();
    for b in [0xa0u32, 0x2fe, 0x660, 0x2026, 0xd7fa, 0xd7fc, 0xd7fd, 0xd7fe, 0xd7ff, 0xe000, 0xfffa, 0xfffd, 0xffff, 0x1_0000, 0x1f3f9, 0x10_fffa] {
        starts.push(b);
    }
    let mut words_all: Vec<String> = vec![];
    let mut index: std::collections::HashMap<String, usize> = std::collections::HashMap::new();
    let mut sets = vec![];
    // successor in scalar order: U+D7FF is followed by U+E000 (a run may cross the surrogate gap)
    let succ = |c: u32| if c == 0xd7ff { 0xe000 } else { c + 1 };
    let mut runs: Vec<Vec<char>> = vec![];
    for s in starts {
        for n in 2..=5u32 {
            let mut cs: Vec<char> = vec![];
            let mut c = s;
            for _ in 0..n {
                if let Some(ch) = char::from_u32(c) {
                    cs.push(ch);
                }
                c = succ(c);
            }
            if cs.len() != n as usize {
                continue;
            }
            // the run with one interior member removed: its neighbours are then NOT consecutive
            if n >= 3 && (s < 0x80 && s % 8 == 0 || s >= 0x80) {
                for k in 1..cs.len() - 1 {
                    let mut h = cs.clone();
                    h.remove(k);
                    runs.push(h);
                }
            }
            runs.push(cs);
        }
    }
    for cs in runs {
        {
            for shape in 0..3 {
                let set: Vec<usize> = cs
                    .iter()
                    .map(|c| {
                        let w = match shape {
                            0 => c.to_string(),
                            1 => format!("q{c}"),
                            _ => format!("{c}q"),
                        };
                        *index.entry(w.clone()).or_insert_with(|| {
                            words_all.push(w.clone());
                            words_all.len() - 1
                        })
                    })
                    .collect();
                sets.push(set);
            }
        }
    }
    Universe { name: "U_runs: c..c+n-1 (n=2..5) for every ASCII start and 16 table boundaries (across the surrogate gap and the BMP/astral border too), and the same run with one interior member removed; bare, after q, before q".to_string(), words: words_all, sets }
}

/// Long single test cases with MANY repeated substrings (parametric families, every n up to the bound): the
/// repetition detector sorts, overlaps and splices its ranges, and with more than a handful of ranges the
/// order of that list matters. n counts the repeated units; shapes: doubled letters, tripled letters, doubled
/// pairs, each bare, after a nested repetition (xzzzxzzz), and before one.
pub fn u_long_rep(nmax: usize) -> Universe {
    let letters: Vec<char> = ('a'..='w').chain('A'..='W').collect();
    let mut w = vec![];
    for n in 1..=nmax.min(letters.len()) {
        let dbl: String = letters[..n].iter().map(|c| format!("{c}{c}")).collect();
        let tri: String = letters[..n].iter().map(|c| format!("{c}{c}{c}")).collect();
        let pair: String = letters[..n].iter().map(|c| format!("{c}y{c}y")).collect();
        let mixed: String = letters[..n].iter().enumerate().map(|(i, c)| if i % 2 == 0 { format!("{c}{c}") } else { format!("{c}") }).collect();
        for body in [dbl, tri, pair, mixed] {
            w.push(body.clone());
            w.push(format!("xzzzxzzz{body}12"));
            w.push(format!("12{body}xzzzxzzz"));
            w.push(format!("{body}{body}"));
        }
    }
    Universe::from_words(&format!("U_longrep: n=1..={nmax} repeated units (doubled, tripled, doubled pairs, alternating) bare / after xzzzxzzz / before it / twice"), w, 1)
}

/// One unit repeated 1..=8 times (a, ab), bare and after a common prefix: every pair / triple of counts, so that
/// count differences of 1, 2, 3.. between test cases meet every threshold.
pub fn u_count_gaps() -> Universe {
    let mut w = vec![];
    for unit in ["a", "ab"] {
        for n in 1..=8 {
            w.push(unit.repeat(n));
            w.push(format!("x{}", unit.repeat(n)));
        }
    }
    Universe::from_words("U_gaps{a,ab}^{1..8} bare and after x, subsets of size <=3", w, 3)
}

/// One long run of a single grapheme (n = 1..=nmax) next to material with and without repetitions of its own:
/// fast paths keyed on the run length, and the handling of what is left over around the run.
pub fn u_long_runs(nmax: usize) -> Universe {
    let mut w = vec![];
    // every n up to nmax, then the lengths around 64, 128 and 256 (size-keyed fast paths and windows; the repetition search of the subject needs memory cubic in the length, so 258 is the end of what 16 parallel builds can afford)
    let extra: Vec<usize> = [64usize, 128, 256].iter().flat_map(|p| [p - 1, *p, p + 1, p + 2]).filter(|n| *n > nmax).collect();
    for n in (1..=nmax).chain(extra) {
        let r = "a".repeat(n);
        for s in [r.clone(), format!("xyz{r}"), format!("{r}xyz"), format!("bcbc{r}xyz"), format!("xyz{r}cdcd"), format!("q{r}q"), format!("{r}b{r}"), format!("{r}{}", "b".repeat(n))] {
            w.push(s);
        }
    }
    Universe::from_words(&format!("U_longruns: a^n (n=1..={nmax} and 2^k-1..2^k+2 for 2^k = 64, 128, 256) bare, after/before xyz, between repeated and unrepeated material, twice, followed by b^n"), w, 1)
}

/// Sets with MANY test cases (parametric families, every n from 2 to nmax, one set per n and family):
/// chain (prefixes of one word), tails (suffixes of one word), fan (common prefix, distinct middle, common suffix),
/// grid (first n of {a..e} x {0..4} x {"", "z"}), numbers (0..n in decimal), hashed (pseudo-random hex words),
/// ladder (a^i b^(n-i)).
pub fn u_many(nmax: usize) -> Universe {
    let alpha: Vec<char> = ('a'..='z').chain('A'..='Z').collect();
    let base: String = alpha.iter().cycle().take(nmax + 2).collect();
    let bc: Vec<char> = base.chars().collect();
    let mut words_all: Vec<String> = vec![];
    let mut index: std::collections::HashMap<String, usize> = std::collections::HashMap::new();
    let mut sets = vec![];
    let mut add = |ws: Vec<String>, sets: &mut Vec<Vec<usize>>| {
        let mut set: Vec<usize> = ws
            .into_iter()
            .map(|w| {
                *index.entry(w.clone()).or_insert_with(|| {
                    words_all.push(w.clone());
                    words_all.len() - 1
                })
            })
            .collect();
        set.sort();
        set.dedup();
        sets.push(set);
    };
    for n in 2..=nmax {
        add((1..=n).map(|i| bc[..i].iter().collect()).collect(), &mut sets);
        add((0..n).map(|i| bc[i..n].iter().collect()).collect(), &mut sets);
        add((0..n).map(|i| format!("q{}z", alpha[i % alpha.len()].to_string().repeat(1 + i / alpha.len()))).collect(), &mut sets);
        add((0..n).map(|i| format!("{}{}{}", (b'a' + (i % 5) as u8) as char, (i / 5) % 5, if i >= 25 { "z" } else { "" })).collect(), &mut sets);
        add((0..n).map(|i| i.to_string()).collect(), &mut sets);
        add((0..n).map(|i| format!("{:x}", i * 2654435761usize % 1000003)).collect(), &mut sets);
        add((0..=n.min(24)).map(|i| format!("{}{}", "a".repeat(i), "b".repeat(n.min(24) - i))).collect(), &mut sets);
    }
    Universe { name: format!("U_many: chain, tails, fan, grid, numbers, hashed, ladder with n = 2..={nmax} test cases"), words: words_all, sets }
}

/// Every unordered triple {p,q,r} of 24 scalar kinds: the six orderings pqr as single test cases, the set {p,q,r},
/// the set {pq,qr,rp} and the set {pqr, p, r}.
pub fn u_kind_triples() -> Universe {
    let ks = ["\\", "-", "[", "]", "^", "#", " ", ".", "(", "{", "|", "a", "A", "0", "\n", "\u{1b}", "\u{a0}", "\u{e9}", "\u{301}", "\u{663}", "\u{200d}", "\u{1f3fb}", "\u{10ffff}", "\u{df}"];
    let mut words_all: Vec<String> = vec![];
    let mut index: std::collections::HashMap<String, usize> = std::collections::HashMap::new();
    let mut sets = vec![];
    let mut id = |w: String, words_all: &mut Vec<String>| -> usize {
        *index.entry(w.clone()).or_insert_with(|| {
            words_all.push(w);
            words_all.len() - 1
        })
    };
    for i in 0..ks.len() {
        for j in i + 1..ks.len() {
            for l in j + 1..ks.len() {
                let (p, q, r) = (ks[i], ks[j], ks[l]);
                for w in [format!("{p}{q}{r}"), format!("{p}{r}{q}"), format!("{q}{p}{r}"), format!("{q}{r}{p}"), format!("{r}{p}{q}"), format!("{r}{q}{p}")] {
                    let x = id(w, &mut words_all);
                    sets.push(vec![x]);
                }
                let a = [id(p.to_string(), &mut words_all), id(q.to_string(), &mut words_all), id(r.to_string(), &mut words_all)];
                sets.push(a.to_vec());
                let b = [id(format!("{p}{q}"), &mut words_all), id(format!("{q}{r}"), &mut words_all), id(format!("{r}{p}"), &mut words_all)];
                sets.push(b.to_vec());
                let c = [id(format!("{p}{q}{r}"), &mut words_all), a[0], a[2]];
                sets.push(c.to_vec());
            }
        }
    }
    Universe { name: format!("U_kindtriples: all {} triples of {} scalar kinds: 6 orderings, {{p,q,r}}, {{pq,qr,rp}}, {{pqr,p,r}}", ks.len() * (ks.len() - 1) * (ks.len() - 2) / 6, ks.len()), words: words_all, sets }
}

/// Repetitions nested three and four levels deep: ((x^i y)^j z)^k and (((x^2 y)^2 z)^2 w)^2 for x, y, z (, w) drawn from
/// letters, metacharacters, a backslash and a non-ASCII letter, i, j, k in {2,3}. Printing, escaping and grouping of a
/// repeated unit recurse over the nesting; one- and two-level universes cannot tell a shallow walk from a deep one.
pub fn u_nested_rep() -> Universe {
    let ks = [".", "+", "a", "b", "\\", "\u{e9}", "-", "1", "\u{1f4a9}"];
    let mut w = vec![];
    for x in ks {
        for y in ks {
            if y == x {
                continue;
            }
            for z in ks {
                if z == y {
                    continue;
                }
                for (i, j, k) in [(2, 2, 2), (3, 2, 2), (2, 3, 2), (2, 2, 3)] {
                    let inner = format!("{}{y}", x.repeat(i));
                    let mid = format!("{}{z}", inner.repeat(j));
                    w.push(mid.repeat(k));
                    // mirrored: the single grapheme first, the repeated one last -- (y x^i)^j and (z (y x^i)^j)^k
                    let inner_m = format!("{y}{}", x.repeat(i));
                    w.push(inner_m.repeat(j));
                    w.push(format!("{z}{}", inner_m.repeat(j)).repeat(k));
                }
                for v in ["a", "+"] {
                    if v == z {
                        continue;
                    }
                    let l1 = format!("{}{y}", x.repeat(2));
                    let l2 = format!("{}{z}", l1.repeat(2));
                    let l3 = format!("{}{v}", l2.repeat(2));
                    w.push(l3.repeat(2));
                }
            }
        }
    }
    w.sort();
    w.dedup();
    Universe::from_words("U_nest: ((x^i y)^j z)^k, mirrored (y x^i)^j and (z (y x^i)^j)^k, and (((x^2 y)^2 z)^2 w)^2 over {. + a b \\ e-acute - 1 U+1F4A9}, i,j,k in {2,3}", w, 1)
}

/// Prefix x suffix words whose trie order differs from their raw-text order once a conversion is applied: prefixes
/// {1, U+0663 (a 2-byte digit), x, e-acute (a 2-byte letter), aa, aaa, bc} x suffixes {a, bc, x, my}; all sets of <= m words.
/// Equivalent inner states then list their children in different orders, and a merged range edge (aa / aaa under r)
/// sits next to plain ones.
pub fn u_prefix_suffix2(m: usize) -> Universe {
    let mut w = vec![];
    for p in ["1", "\u{663}", "x", "\u{e9}", "aa", "aaa", "bc"] {
        for s in ["a", "bc", "x", "my"] {
            w.push(format!("{p}{s}"));
        }
    }
    Universe::from_words(&format!("U_ps2{{1,U+0663,x,e9,aa,aaa,bc}}x{{a,bc,x,my}} sets of <={m}"), w, m)
}

/// A handful of small sets in which MANY features meet (digits of two scripts, both cases, case partners of different
/// length, repeated units, whitespace of two kinds, metacharacters, combining marks, astral characters, prefix
/// relations). They are crossed with the FULL settings lattice, so that every combination of settings, however many
/// flags it needs, meets inputs on which each of those flags does something.
pub fn u_feature_rich() -> Universe {
    let sets: Vec<Vec<&str>> = vec![
        vec!["Aa1 1", "aa11  "],
        vec!["abab", "ABAB", "x.y"],
        vec!["\u{130}i 22", "ii 22"],
        vec!["a\u{301}a\u{301} \u{e9}", "\u{c9}"],
        vec!["\u{661}\u{661}a_", "11A-"],
        vec!["ab ab ab", "ab ab"],
        vec!["\u{1f4a9}\u{1f4a9} 1", "\u{1f4a9} 11"],
        vec!["a.b", "a-b", "a b"],
        vec!["AAaa", "aaAA", "Aa"],
        vec!["\t1\t1", " 1 1"],
        vec!["foo_bar", "foo-bar", "FOO bar"],
        vec!["\u{df}", "SS", "ss"],
        vec!["12:30", "1:5", "12:3"],
        vec!["xyzxyz1", "xyz1", "Xyz"],
    ];
    let mut words: Vec<String> = vec![];
    let mut out = vec![];
    for s in sets {
        let mut ids = vec![];
        for w in s {
            let i = match words.iter().position(|x| x == w) {
                Some(i) => i,
                None => {
                    words.push(w.to_string());
                    words.len() - 1
                }
            };
            ids.push(i);
        }
        out.push(ids);
    }
    Universe { name: "U_rich: 14 small sets in which many features meet (two digit scripts, both cases, case partners of different length, repeats, two kinds of whitespace, metacharacters, marks, astral, prefixes)".to_string(), words, sets: out }
}

/// One long literal line with ONE special character at every position: a^pos + kind + "b" for every pos in 1..=130
/// and around 240, kind in {backslash, space, #, e-acute, (, U+1F4A9}. Whatever a printer does at a column (wrapping,
/// chunking, buffering) meets every kind of token boundary at every column.
pub fn u_long_literal_at() -> Universe {
    let mut w = vec![];
    for pos in (1..=130usize).chain(236..=244) {
        for kind in ["\\", " ", "#", "\u{e9}", "(", "\u{1f4a9}"] {
            w.push(format!("{}{kind}b", "a".repeat(pos)));
        }
    }
    Universe::from_words("U_longlit: a^pos + k + b, pos = 1..=130 and 236..=244, k in {backslash, space, #, e-acute, (, U+1F4A9}", w, 1)
}


/// A long NON-periodic unit (10, 63..66, 80 distinct characters) repeated m = 2, 3 times, bare and with the first 1 or
/// 5 characters of a further copy after it or the last 1 or 5 before it. Searches that treat long units differently
/// from short ones, and stretches that are not whole multiples of the unit, meet every threshold.
pub fn u_long_units() -> Universe {
    let alpha: Vec<char> = ('a'..='z').chain('A'..='Z').chain('0'..='9').chain("!#%&,:;<=>@_~".chars()).chain('\u{3b1}'..='\u{3c9}').collect();
    let mut w = vec![];
    for ulen in [10usize, 63, 64, 65, 66, 80] {
        let unit: String = alpha[..ulen].iter().collect();
        let uc: Vec<char> = unit.chars().collect();
        for m in [2usize, 3] {
            let body = unit.repeat(m);
            w.push(body.clone());
            for part in [1usize, 5] {
                w.push(format!("{body}{}", uc[..part].iter().collect::<String>()));
                w.push(format!("{}{body}", uc[ulen - part..].iter().collect::<String>()));
            }
        }
    }
    Universe::from_words("U_longunits: a non-periodic unit of 10, 63..66, 80 characters x 2, 3 copies, bare / followed by the start of a further copy / preceded by the end of one", w, 1)
}

/// Two code points in one test case that agree in their low 8 or 16 bits (c and c + k * 0x100 / 0x10000), both orders:
/// anything keyed on a truncated code point confuses them.
pub fn u_alias_pairs() -> Universe {
    let mut w = vec![];
    for c in [0x30u32, 0x61, 0x20, 0x5f, 0x2d, 0xe9, 0x663, 0x2003] {
        for d in [0x100u32, 0x1000, 0x10000, 0x20000, 0xe0000, 0x100000] {
            if let (Some(a), Some(b)) = (char::from_u32(c), char::from_u32(c + d)) {
                w.push(format!("{a}{b}"));
                w.push(format!("{b}{a}"));
                w.push(format!("{a}-{b}"));
            }
        }
    }
    Universe::from_words("U_alias: c next to c + d, d in {0x100, 0x1000, 0x10000, 0x20000, 0xE0000, 0x100000}, c in {0, a, space, _, -, e-acute, U+0663, U+2003}", w, 1)
}

/// X X Z Z with X and Z made of distinct characters: n(n+1)/2 repeated substrings for |X| = n -- thousands of
/// candidates in one test case, all of them in one hash map.
pub fn u_double_blocks() -> Universe {
    let alpha: Vec<char> = ('a'..='z').chain('A'..='Z').chain('0'..='9').chain('\u{3b1}'..='\u{3c9}').chain('\u{430}'..='\u{44f}').collect();
    let mut w = vec![];
    for n in [4usize, 16, 48, 64, 80] {
        for m in [3usize, 20] {
            let x: String = alpha[..n].iter().collect();
            let z: String = alpha[n..n + m].iter().collect();
            w.push(format!("{x}{x}{z}{z}"));
        }
    }
    Universe::from_words("U_dblocks: X X Z Z, |X| in {4,16,48,64,80}, |Z| in {3,20}, all characters distinct", w, 1)
}

/// One LONG common prefix (10 .. 1,500 characters) followed by short different tails: automata with more than a
/// thousand states whose interesting part is a handful of states at the end.
pub fn u_long_prefix() -> Universe {
    let mut words_all: Vec<String> = vec![];
    let mut sets = vec![];
    for n in [10usize, 100, 300, 1000, 1100, 1500] {
        let p: String = "abcdefghij".chars().cycle().take(n).collect();
        for tails in [vec!["a", "b", "aa"], vec!["", "a"], vec!["a", "bc", "b"], vec!["xy", "x", "y", "xyx"]] {
            let mut set = vec![];
            for t in tails {
                words_all.push(format!("{p}{t}"));
                set.push(words_all.len() - 1);
            }
            sets.push(set);
        }
    }
    Universe { name: "U_longprefix: a common prefix of 10, 100, 300, 1000, 1100, 1500 characters followed by the tails {a,b,aa}, {eps,a}, {a,bc,b}, {xy,x,y,xyx}".to_string(), words: words_all, sets }
}
