//! Reference model: the language a (test-case set, settings) pair is *documented* to denote,
//! built directly as regex-syntax HIR. No grex code, no pattern text.
use crate::cfgs::*;
use crate::lang;
use regex_syntax::hir::{Class, ClassUnicode, Hir, Look};

pub struct Classes {
    pub d: ClassUnicode,
    pub s: ClassUnicode,
    pub w: ClassUnicode,
    pub nd: ClassUnicode,
    pub ns: ClassUnicode,
    pub nw: ClassUnicode,
}

impl Classes {
    pub fn new() -> Classes {
        let neg = |c: &ClassUnicode| {
            let mut n = c.clone();
            n.negate();
            n
        };
        let d = lang::class_of(r"\d");
        let s = lang::class_of(r"\s");
        let w = lang::class_of(r"\w");
        Classes { nd: neg(&d), ns: neg(&s), nw: neg(&w), d, s, w }
    }
}

pub fn contains(c: &ClassUnicode, ch: char) -> bool {
    let r = c.ranges();
    let i = r.partition_point(|x| x.end() < ch);
    i < r.len() && r[i].start() <= ch
}

/// Which shorthand token (if any) the documented precedence assigns to `c` under `cfg`.
pub fn class_token(c: char, cfg: &Cfg, k: &Classes) -> Option<&'static str> {
    let (isd, isw, iss) = (contains(&k.d, c), contains(&k.w, c), contains(&k.s, c));
    if cfg.has(D) && isd {
        Some("\\d")
    } else if cfg.has(W) && isw {
        Some("\\w")
    } else if cfg.has(S) && iss {
        Some("\\s")
    } else if cfg.has(ND) && !isd {
        Some("\\D")
    } else if cfg.has(NW) && !isw {
        Some("\\W")
    } else if cfg.has(NS) && !iss {
        Some("\\S")
    } else {
        None
    }
}

pub fn token_class<'a>(tok: &str, k: &'a Classes) -> &'a ClassUnicode {
    match tok {
        "\\d" => &k.d,
        "\\D" => &k.nd,
        "\\s" => &k.s,
        "\\S" => &k.ns,
        "\\w" => &k.w,
        "\\W" => &k.nw,
        _ => panic!("not a class token"),
    }
}

/// The set one code point of a test case stands for.
pub fn symbol(c: char, cfg: &Cfg, k: &Classes) -> Hir {
    match class_token(c, cfg, k) {
        Some(t) => Hir::class(Class::Unicode(token_class(t, k).clone())),
        None => lang::lit_char(c, cfg.has(I)),
    }
}

/// Spec language: union over test cases of the concatenation of per-code-point sets.
pub fn spec(tcs: &[String], cfg: &Cfg, k: &Classes) -> Hir {
    let mut alts = vec![];
    for t in tcs {
        let mut seq = vec![Hir::look(Look::Start)];
        for c in t.chars() {
            seq.push(symbol(c, cfg, k));
        }
        seq.push(Hir::look(Look::End));
        alts.push(Hir::concat(seq));
    }
    Hir::alternation(alts)
}
