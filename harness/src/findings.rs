//! Known-finding classification: a violation is suppressed only if an *open* entry of
//! /verif/known_findings.json names a model (implemented here) that explains exactly this violation.
use crate::core::Ctx;
use crate::ev::Violation;

pub fn report(ctx: &Ctx, v: Violation) {
    for e in ctx.run.kf.open_for(&v.property) {
        if crate::models::explains(ctx, e, &v) {
            ctx.run.known(&e.id, v);
            return;
        }
    }
    ctx.run.violation(v);
}
