//! Defect models for open known findings (DESIGN §4). A violation is suppressed only if the observed
//! language is *exactly* the language the recorded defect produces for this input, computed by the
//! harness' own reference pipeline from the hook's cluster snapshot (itself validated against the spec).
//! Any other deviation -- a changed merge rule, a broken later stage, a broken cluster conversion --
//! makes the observed language differ from the model and is reported.
use crate::cfgs::*;
use crate::core::*;
use crate::ev::{KfEntry, Violation};
use crate::lang::{self, Interner, Nfa};
use crate::spec;
use crate::stages::*;
use regex_syntax::hir::Hir;

pub const M_RANGE_MERGE: &str = "trie-adjacent-count-merge";
pub const M_EPSILON: &str = "epsilon-dropped-by-minimisation";

fn eq_nfa(ctx: &Ctx, a: Nfa, b: Nfa, it: Interner) -> Option<bool> {
    match lang::compare_nfa(a, b, it, false) {
        Ok((d, st)) => {
            ctx.run.add_stats(&st);
            Some(d.is_none())
        }
        Err(_) => None,
    }
}

/// Clusters of the real pipeline, accepted only if normalisation and cluster conversion are language-exact.
fn trusted_clusters(ctx: &Ctx, tcs: &[String], cfg: &Cfg) -> Option<grex::verif::Stages> {
    let st = snapshot(tcs, cfg).ok()?;
    let k = &ctx.k;
    if leq(&ctx.run, &spec::spec(tcs, cfg, k), &spec::spec(&st.test_cases, cfg, k)).ok()?.is_some() {
        return None;
    }
    if st.clusters.len() != st.test_cases.len() {
        return None;
    }
    for (c, t) in st.clusters.iter().zip(&st.test_cases) {
        let ch = lang::anchored(cluster_hir(c, cfg, k));
        let sh = spec::spec(std::slice::from_ref(t), cfg, k);
        if leq(&ctx.run, &sh, &ch).ok()?.is_some() {
            return None;
        }
    }
    Some(st)
}

/// Does `lang_hir` equal the language produced with the given defects enabled?
fn matches_model(ctx: &Ctx, st: &grex::verif::Stages, cfg: &Cfg, lang_hir: &Hir, merge: bool, eps: bool) -> Option<bool> {
    let trie = model_trie(&st.clusters, merge && cfg.has(R));
    let drop = eps && trie.states.len() > 1 && trie.finals.contains(&0);
    let mut it = Interner::default();
    let m = dfa_nfa(&trie, cfg, &ctx.k, &mut it, drop).ok()?;
    let o = Nfa::from_hir(lang_hir, &mut it).ok()?;
    eq_nfa(ctx, m, o, it)
}

/// Which defect combination (merge, eps) reproduces the observed language, if any; (false,false) = none needed.
fn which(ctx: &Ctx, tcs: &[String], cfg: &Cfg, out: &str, allow_merge: bool, allow_eps: bool) -> Option<(bool, bool)> {
    let text = prep(out, cfg).ok()?;
    let h = full_hir(&text, cfg).ok()?;
    let st = trusted_clusters(ctx, tcs, cfg)?;
    for (m, e) in [(false, false), (true, false), (false, true), (true, true)] {
        if (m && !allow_merge) || (e && !allow_eps) {
            continue;
        }
        if m && !cfg.has(R) {
            continue;
        }
        if matches_model(ctx, &st, cfg, &h, m, e)? {
            return Some((m, e));
        }
    }
    None
}

pub fn explains(ctx: &Ctx, e: &KfEntry, v: &Violation) -> bool {
    if e.model != M_RANGE_MERGE && e.model != M_EPSILON {
        return false;
    }
    let open = |m: &str| ctx.run.kf.open_model(&v.property, m).is_some();
    let (am, ae) = (open(M_RANGE_MERGE), open(M_EPSILON));
    let needs = |r: (bool, bool)| if e.model == M_RANGE_MERGE { r.0 } else { r.1 };
    match v.kind.as_str() {
        "lang" => match which(ctx, &v.tcs, &v.cfg, &v.out, am, ae) {
            Some(r) => needs(r),
            None => false,
        },
        "lang-diff" => {
            let other = Cfg::from_json(&v.detail["other_settings"]);
            let other_out = v.detail["other_output"].as_str().unwrap_or("");
            match (which(ctx, &v.tcs, &v.cfg, &v.out, am, ae), which(ctx, &v.tcs, &other, other_out, am, ae)) {
                (Some(a), Some(b)) => needs(a) || needs(b),
                _ => false,
            }
        }
        "stage" => stage_explained(ctx, e, v).unwrap_or(false),
        // searching the empty test case finds nothing because the pattern's language lost epsilon
        "search" => {
            e.model == M_EPSILON
                && v.detail["searched"] == serde_json::json!("")
                && v.detail["found_span"].is_null()
                && which(ctx, &v.tcs, &v.cfg, &v.out, am, ae).map_or(false, |r| r.1)
        }
        _ => false,
    }
}

fn stage_explained(ctx: &Ctx, e: &KfEntry, v: &Violation) -> Option<bool> {
    let stage = v.detail["stage"].as_str()?;
    let cfg = &v.cfg;
    let k = &ctx.k;
    let st = snapshot(&v.tcs, cfg).ok()?;
    match (e.model.as_str(), stage) {
        (M_RANGE_MERGE, "trie") => {
            if !cfg.has(R) {
                return Some(false);
            }
            let model = model_trie(&st.clusters, true);
            if model.states.len() != st.trie.states.len() {
                return Some(false);
            }
            let mut it = Interner::default();
            let a = dfa_nfa(&st.trie, cfg, k, &mut it, false).ok()?;
            let b = dfa_nfa(&model, cfg, k, &mut it, false).ok()?;
            eq_nfa(ctx, a, b, it)
        }
        (M_EPSILON, "minimise") => {
            if !st.trie.finals.contains(&st.trie.start) {
                return Some(false);
            }
            let mut it = Interner::default();
            let a = dfa_nfa(&st.trie, cfg, k, &mut it, true).ok()?;
            let b = dfa_nfa(&st.minimized, cfg, k, &mut it, false).ok()?;
            eq_nfa(ctx, a, b, it)
        }
        (M_EPSILON, "eliminate") | (M_EPSILON, "eliminate+print") => {
            // only the single test case "": the minimised automaton lost its only final state and the
            // elimination fallback (empty literal) happens to compensate
            Some(st.trie.states.len() == 1 && st.trie.finals.contains(&st.trie.start) && st.minimized.finals.is_empty() && st.expression.is_empty())
        }
        _ => Some(false),
    }
}
