//! C16 Every pipeline stage preserves the language; minimisation is deterministic and minimal.
use crate::cfgs::*;
use crate::core::*;
use crate::ev::hash_case;
use crate::lang::{self, Interner, Nfa};
use crate::space::*;
use crate::spec;
use crate::stages::*;
use crate::sweep::*;
use grex::verif::DfaSnap;
use serde_json::json;
use std::collections::{BTreeMap, BTreeSet};

fn cmp(ctx: &Ctx, a: Nfa, b: Nfa, it: Interner) -> Result<Option<lang::Diff>, String> {
    let (d, st) = lang::compare_nfa(a, b, it, false)?;
    ctx.run.add_stats(&st);
    Ok(d)
}

/// Moore refinement on a deterministic snapshot: number of right-language classes.
fn right_language_classes(d: &DfaSnap) -> usize {
    let finals: BTreeSet<usize> = d.finals.iter().copied().collect();
    let mut class: BTreeMap<usize, usize> = d.states.iter().map(|s| (*s, finals.contains(s) as usize)).collect();
    loop {
        let mut sigs: BTreeMap<(usize, Vec<(String, u32, u32, usize)>), usize> = BTreeMap::new();
        let mut next = BTreeMap::new();
        for s in &d.states {
            let mut out: Vec<(String, u32, u32, usize)> = d.edges.iter().filter(|e| e.0 == *s).map(|e| (e.2.chars.join(""), e.2.min, e.2.max, class[&e.1])).collect();
            out.sort();
            let key = (class[s], out);
            let n = sigs.len();
            let id = *sigs.entry(key).or_insert(n);
            next.insert(*s, id);
        }
        let before: BTreeSet<usize> = class.values().copied().collect();
        let after: BTreeSet<usize> = next.values().copied().collect();
        class = next;
        if before.len() == after.len() {
            return after.len();
        }
    }
}

pub fn check_case(ctx: &Ctx, tcs: &[String], cfg: &Cfg) {
    let run = &ctx.run;
    run.eval();
    if nontrivial(tcs) {
        run.mark_nontrivial(hash_case(tcs, cfg));
    }
    let k = &ctx.k;
    let st = match snapshot(tcs, cfg) {
        Ok(s) => s,
        Err(m) => return crate::findings::report(ctx, viol("C16", "panic", format!("panic-in-stages:{}", m.chars().take(40).collect::<String>()), tcs, cfg, "", json!({"panic": m}))),
    };
    let flags = cfg.flag_names().join(",");
    let mut stage_fail = |name: &str, d: &lang::Diff, a: &str, b: &str, extra: serde_json::Value| {
        let dir = if d.in_a { "loses" } else { "adds" };
        let mut det = diff_detail(d, a, b);
        det["stage"] = json!(name);
        det["stage_data"] = extra;
        crate::findings::report(ctx, viol("C16", "stage", format!("stage:{name}:{dir} flags={flags}"), tcs, cfg, &st.expression, det));
    };
    macro_rules! try_m {
        ($e:expr) => {
            match $e {
                Ok(v) => v,
                Err(e) => return run.machinery_error(format!("C16 {:?} {}: {e}", tcs, cfg.name())),
            }
        };
    }
    // stage 0: case conversion + sort + dedup keep the spec language
    let sp_orig = spec::spec(tcs, cfg, k);
    let sp_norm = spec::spec(&st.test_cases, cfg, k);
    if let Some(d) = try_m!(leq(run, &sp_orig, &sp_norm)) {
        stage_fail("normalise", &d, "original", "normalised", json!({"normalised_test_cases": st.test_cases}));
    }
    // stage 1: converted clusters (class + repetition conversion), each against its own test case
    if st.clusters.len() != st.test_cases.len() {
        return run.machinery_error("cluster count != test case count".into());
    }
    for (c, t) in st.clusters.iter().zip(&st.test_cases) {
        let ch = lang::anchored(cluster_hir(c, cfg, k));
        let sh = spec::spec(std::slice::from_ref(t), cfg, k);
        if let Some(d) = try_m!(leq(run, &sp_wrap(&sh), &ch)) {
            stage_fail("clusters", &d, "test_case", "cluster", json!({"test_case": t, "cluster": format!("{:?}", c)}));
            break;
        }
    }
    // stage 2: trie vs clusters
    {
        let mut it = Interner::default();
        let a = try_m!(Nfa::from_hir(&clusters_hir(&st, cfg, k), &mut it));
        let t = try_m!(dfa_nfa(&st.trie, cfg, k, &mut it, false));
        if let Some(d) = try_m!(cmp(ctx, a, t, it)) {
            stage_fail("trie", &d, "clusters", "trie", json!({"trie_states": st.trie.states.len()}));
        }
    }
    // stage 3: minimised vs trie
    {
        let mut it = Interner::default();
        let t = try_m!(dfa_nfa(&st.trie, cfg, k, &mut it, false));
        let m = try_m!(dfa_nfa(&st.minimized, cfg, k, &mut it, false));
        if let Some(d) = try_m!(cmp(ctx, t, m, it)) {
            stage_fail("minimise", &d, "trie", "minimised", json!({"trie_states": st.trie.states.len(), "min_states": st.minimized.states.len()}));
        }
    }
    // stage 4: eliminated expression vs minimised; stage 5: printed pattern vs expression.
    // In verbose mode the expression string is a layout (newlines, unescaped spaces and '#') that only becomes a
    // regex in RegExp's Display, so the two stages are compared as one: minimised vs printed pattern.
    if cfg.has(X) {
        if !cfg.has(NA | NE) {
            match build_lang(tcs, cfg) {
                Built::Ok { text, hir, .. } => {
                    let mut it = Interner::default();
                    let m = try_m!(dfa_nfa(&st.minimized, cfg, k, &mut it, false));
                    let e = try_m!(Nfa::from_hir(&hir, &mut it));
                    if let Some(d) = try_m!(cmp(ctx, m, e, it)) {
                        stage_fail("eliminate+print", &d, "minimised", "pattern", json!({"expression": st.expression, "pattern": text}));
                    }
                }
                Built::Panic(m) => crate::findings::report(ctx, viol("C16", "panic", "panic-in-build".into(), tcs, cfg, "", json!({"panic": m}))),
                Built::Invalid { out, err } => crate::findings::report(ctx, viol("C16", "invalid", "stage:print:invalid".into(), tcs, cfg, &out, json!({"error": err}))),
            }
        }
    } else {
    let prefix = if cfg.has(I) { "(?i)" } else { "" };
    let expr_pat = format!("{prefix}^(?:{})$", st.expression);
    match lang::parse(&expr_pat) {
        Ok(h) => {
            let mut it = Interner::default();
            let m = try_m!(dfa_nfa(&st.minimized, cfg, k, &mut it, false));
            let e = try_m!(Nfa::from_hir(&h, &mut it));
            if let Some(d) = try_m!(cmp(ctx, m, e, it)) {
                stage_fail("eliminate", &d, "minimised", "expression", json!({"expression": st.expression}));
            }
            // stage 5: printed pattern vs expression (anchored settings only: the fallback paths belong to C08)
            if !cfg.has(NA | NE) {
                match build_lang(tcs, cfg) {
                    Built::Ok { text, hir, .. } => match leq_conf(run, &text, &hir, &h) {
                        Ok((None, _)) => {}
                        Ok((Some(d), _)) => stage_fail("print", &d, "pattern", "expression", json!({"expression": st.expression, "pattern": text})),
                        Err(e) => return run.machinery_error(e),
                    },
                    Built::Panic(m) => crate::findings::report(ctx, viol("C16", "panic", "panic-in-build".into(), tcs, cfg, "", json!({"panic": m}))),
                    Built::Invalid { out, err } => crate::findings::report(ctx, viol("C16", "invalid", "stage:print:invalid".into(), tcs, cfg, &out, json!({"error": err}))),
                }
            }
        }
        Err(e) => crate::findings::report(ctx, viol("C16", "invalid", format!("stage:eliminate:invalid flags={flags}"), tcs, cfg, &st.expression, json!({"error": e}))),
    }
    }
    // determinism and minimality when every edge is one symbol
    if !cfg.has(R) {
        let mut seen = BTreeSet::new();
        for (a, _, g) in &st.minimized.edges {
            if !seen.insert((*a, g.chars.join(""))) {
                crate::findings::report(ctx, viol("C16", "structure", format!("nondeterministic-minimised flags={flags}"), tcs, cfg, &st.expression, json!({"state": a, "label": g.chars.join("")})));
                break;
            }
        }
        let classes = right_language_classes(&st.minimized);
        if classes != st.minimized.states.len() {
            crate::findings::report(ctx, viol("C16", "structure", format!("not-minimal:equivalent-states flags={flags}"), tcs, cfg, &st.expression, json!({"states": st.minimized.states.len(), "right_language_classes": classes})));
        }
        // residual count of the intended language, computed from the cluster symbol sequences only
        let seqs: BTreeSet<Vec<String>> = st.clusters.iter().map(|c| c.iter().map(|g| g.chars.join("")).collect()).collect();
        let mut prefixes: BTreeSet<Vec<String>> = BTreeSet::new();
        for s in &seqs {
            for i in 0..=s.len() {
                prefixes.insert(s[..i].to_vec());
            }
        }
        let residuals: BTreeSet<BTreeSet<Vec<String>>> = prefixes.iter().map(|p| seqs.iter().filter(|s| s.starts_with(p)).map(|s| s[p.len()..].to_vec()).collect()).collect();
        if residuals.len() != st.minimized.states.len() {
            crate::findings::report(ctx, viol("C16", "structure", format!("not-minimal:state-count flags={flags}"), tcs, cfg, &st.expression, json!({"states": st.minimized.states.len(), "residuals": residuals.len()})));
        }
    }
    if run.want_sample() {
        run.sample(json!({"test_cases": tcs, "settings": cfg.name(), "clusters": st.clusters.len(), "trie_states": st.trie.states.len(), "min_states": st.minimized.states.len(), "expression": st.expression}));
    }
}

fn sp_wrap(h: &regex_syntax::hir::Hir) -> regex_syntax::hir::Hir {
    h.clone()
}

pub fn blocks(thorough: bool) -> Vec<Block> {
    let five: Vec<Cfg> = [0, R, D | W, R | D, I].iter().map(|b| Cfg::new(*b)).collect();
    let mut b = vec![];
    if !thorough {
        b.push(Block::new(Universe::new("U_ab3{a,b}", &["a", "b"], 3, 0, false), vec![Cfg::new(0), Cfg::new(R)], "{}, r"));
        b.push(Block::new(Universe::new("U_abc2{a,b,c}", &["a", "b", "c"], 2, 0, true), five.clone(), "{}, r, d+w, r+d, i"));
        b.push(Block::new(Universe::new("U_adv(A_cls)", A_CLS, 2, 2, true), five.clone(), "{}, r, d+w, r+d, i"));
        b.push(Block::new(Universe::new("U_pairs{a,b}^<=4", &["a", "b"], 4, 2, false), vec![Cfg::new(R), Cfg::with(R, 2, 1)], "r, r(2,1)"));
        b.push(Block::new(Universe::new("U_adv(A_gc)", A_GC, 2, 2, true), vec![Cfg::new(0), Cfg::new(R)], "{}, r"));
        b.push(Block::new(Universe::new("U_adv(A_cons)", A_CONS, 1, 3, false), vec![Cfg::new(0)], "{}"));
        b.push(Block::new(u_corpus("U_large", verif_seed(), 6_000, &["a", "b", "c"], (12, 19), (5, 7)), vec![Cfg::new(0)], "{} (tries of 60-130 states)"));
        b.push(Block::new(u_prefix_counts(), vec![Cfg::new(R)], "r"));
        b.push(Block::new(u_prefix_counts_unit(), vec![Cfg::new(R)], "r"));
        b.push(Block::new(Universe::new("U_abc3{a,b,c}", &["a", "b", "c"], 3, 4, false), vec![Cfg::new(0)], "{}"));
        b.push(Block::new(Universe::new("U_ab4{a,b}", &["a", "b"], 4, 5, false), vec![Cfg::new(0)], "{}"));
        b.push(Block::new(u_prefix_suffix(), vec![Cfg::new(D), Cfg::new(W), Cfg::new(W | D), Cfg::new(D | R)], "d, w, w+d, d+r"));
        b.push(Block::new(Universe::new("U_tok{\\d,1,\\,d}", &["\\d", "1", "\\", "d"], 3, 2, false), vec![Cfg::new(D | R), Cfg::new(D | W | R), Cfg::new(D)], "d+r, d+w+r, d"));
        b.push(Block::new(Universe::new("U_adv(A_gcm)", A_GCM, 3, 1, false), vec![Cfg::new(0), Cfg::new(R), Cfg::new(NW)], "{}, r, W"));
        b.push(Block::new(u_kind_pairs(2, 2, false), vec![Cfg::new(0)], "{}"));
        b.push(Block::new(u_runs(), five.clone(), "{}, r, d+w, r+d, i"));
        b.push(Block::new(u_many(40), five.clone(), "{}, r, d+w, r+d, i"));
        b.push(Block::new(u_long_prefix(), vec![Cfg::new(0)], "{}"));
        b.push(Block::new(Universe::new("U_bytes{a,b,U+20AC}", &["a", "b", "\u{20ac}"], 3, 3, false), vec![Cfg::new(0)], "{} (sort order by byte length vs number of graphemes)"));
        b.push(Block::new(Universe::new("U_bytes{a,e9,U+20AC,U+1F600}", &["a", "\u{e9}", "\u{20ac}", "\u{1f600}"], 2, 3, false), vec![Cfg::new(0)], "{} (1-, 2-, 3- and 4-byte characters)"));
        b.push(Block::new(Universe::new("U_adv(cluster units)", &["\u{d4e}a", ".\u{1f3fb}", "1\u{e33}", "a", "\u{111c2}-", "+\u{ff9e}"], 4, 1, false), vec![Cfg::new(R), Cfg::new(R | D), Cfg::new(R | W)], "r, r+d, r+w (a repeated two-scalar cluster whose first member is printed with a backslash)"));
        b.push(Block::new(u_prefix_suffix2(4), vec![Cfg::new(D), Cfg::new(W), Cfg::new(R), Cfg::new(D | R)], "d, w, r, d+r"));
        b.push(Block::new(u_feature_rich(), lattice_all(0, ALL_BITS & !(U | C | NA | NE)), "Lambda_full (anchored, no u,c): 2,048 combinations"));
        b.push(Block::new(Universe::new("U_adv(A_cls)", A_CLS, 2, 2, false), vec![Cfg::new(I | D | ND), Cfg::new(I | W | NW), Cfg::new(I | S | NS), Cfg::new(I | D | NW), Cfg::new(I | W | ND | R)], "i+d+D, i+w+W, i+s+S, i+d+W, i+w+D+r (a class next to its complement under case folding)"));
        b.push(Block::new(u_kind_triples(), vec![Cfg::new(0), Cfg::new(R)], "{}, r"));
    } else {
        b.push(Block::new(Universe::new("U_adv(A_cons)", A_CONS, 1, 4, false), vec![Cfg::new(0), Cfg::new(I)], "{}, i"));
        b.push(Block::new(Universe::new("U_abc3{a,b,c}", &["a", "b", "c"], 3, 4, false), vec![Cfg::new(0), Cfg::new(R)], "{}, r"));
        b.push(Block::new(Universe::new("U_abc3{a,b,c}", &["a", "b", "c"], 3, 5, false), vec![Cfg::new(0)], "{}"));
        b.push(Block::new(Universe::new("U_ab4{a,b}", &["a", "b"], 4, 5, false), vec![Cfg::new(0), Cfg::new(R)], "{}, r"));
        b.push(Block::new(u_prefix_suffix(), lattice_all(0, CLASS_BITS), "all 64 class subsets"));
        b.push(Block::new(Universe::new("U_adv(A_gcm)", A_GCM, 3, 2, false), vec![Cfg::new(0), Cfg::new(R), Cfg::new(NW)], "{}, r, W"));
        b.push(Block::new(Universe::new("U_ab3{a,b}", &["a", "b"], 3, 0, false), five.clone(), "{}, r, d+w, r+d, i"));
        b.push(Block::new(Universe::new("U_abc2{a,b,c}", &["a", "b", "c"], 2, 0, true), lattice_le(0, ALL_BITS & !(U | C | NA | NE), 2), "Lambda<=2 (anchored)"));
        b.push(Block::new(Universe::new("U_adv(A_cls)", A_CLS, 2, 3, true), five.clone(), "{}, r, d+w, r+d, i"));
        b.push(Block::new(Universe::new("U_triples{a,b}^<=4", &["a", "b"], 4, 3, false), vec![Cfg::new(0), Cfg::new(R), Cfg::with(R, 2, 1)], "{}, r, r(2,1)"));
        b.push(Block::new(Universe::new("U_ab4{a,b}", &["a", "b"], 4, 4, true), vec![Cfg::new(0), Cfg::new(R)], "{}, r"));
        b.push(Block::new(Universe::new("U_adv(A_gc)", A_GC, 2, 2, true), five.clone(), "{}, r, d+w, r+d, i"));
        b.push(Block::new(Universe::new("U_adv(A_case)", A_CASE, 2, 2, true), vec![Cfg::new(I), Cfg::new(I | R)], "i, i+r"));
        b.push(Block::new(u_kind_pairs(2, 3, false), vec![Cfg::new(0), Cfg::new(R)], "{}, r"));
        b.push(Block::new(u_kind_pairs(3, 1, false), five.clone(), "{}, r, d+w, r+d, i"));
        b.push(Block::new(u_runs(), lattice_le(0, ALL_BITS & !(U | C | NA | NE), 2), "Lambda<=2 (anchored)"));
        b.push(Block::new(u_many(150), five.clone(), "{}, r, d+w, r+d, i"));
        b.push(Block::new(u_prefix_suffix2(5), vec![Cfg::new(D), Cfg::new(W), Cfg::new(R), Cfg::new(D | R), Cfg::new(D | W), Cfg::new(W | R)], "d, w, r, d+r, d+w, w+r"));
        b.push(Block::new(u_kind_triples(), five.clone(), "{}, r, d+w, r+d, i"));
    }
    if thorough {
        // the thorough space is a superset of the quick one: every quick block first, then the deeper ones
        let mut all = blocks(false);
        all.extend(b);
        return all;
    }
    b
}

pub fn run(ctx: &Ctx) {
    *ctx.run.rule.lock().unwrap() = "universes as in C02/C05 x {{}, r, d+w, r+d, i}; per case the hook snapshot of the real pipeline (normalised test cases, converted clusters, trie, minimised automaton, eliminated expression) plus the printed pattern; consecutive stages compared by complete product exploration (6 comparisons per case); without r: determinism, pairwise-distinct right languages (own Moore refinement) and state count = number of distinct residuals of the cluster sequences; non-trivial as in C01; distinct by hash".into();
    ctx.run.assumptions.lock().unwrap().push("hook `grex::verif::stages` calls the same private functions as RegExp::from in the same order (add-only patch, reviewed); stage 5 ties the snapshot's expression to the real build() output".into());
    sweep(ctx, &blocks(ctx.run.is_thorough()), check_case);
}
