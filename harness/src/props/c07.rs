//! C07 build() is total and returns a syntactically valid regex; panics only where documented.
use crate::cfgs::*;
use crate::core::*;
use crate::ev::{hash_case, par_for};
use crate::lang;
use grex::RegExpBuilder;
use serde_json::json;

pub fn curated() -> Vec<Vec<String>> {
    let s = |v: &[&str]| v.iter().map(|x| x.to_string()).collect::<Vec<String>>();
    let mut v: Vec<Vec<String>> = vec![
        s(&[""]), s(&["", "a"]), s(&["", "a", "ab"]), s(&["a"]), s(&["a", "b"]), s(&["a", "ab", "abc"]), s(&["abc", "bc", "c"]),
        s(&["aa", "aaa", "aaaa"]), s(&["abab", "ababab"]), s(&["aaaaaa"]), s(&["ab", "aab", "aaab"]), s(&["ba", "bb"]), s(&["a", "A"]), s(&["ab", "AB", "aB"]),
        s(&["1", "12", "123"]), s(&["a1", "b2", "c3"]), s(&[" ", "  ", "\t"]), s(&["a b", "a  b"]), s(&["#", " #"]), s(&["a-b", "a_b"]),
        s(&["\\"]), s(&["\\\\"]), s(&["\\", "\\\\"]), s(&["\\d", "\\w"]), s(&["\\u{41}"]), s(&["a\\", "\\a"]),
        s(&["\\\u{1f3fb}"]), s(&["\\\u{1f3fb}\u{1f3fb}"]), s(&["\u{d4e}\\"]), s(&["\u{d4e}\u{d4e}\\"]), s(&["\\\u{301}"]),
        s(&["\u{1f4a9}"]), s(&["\u{1f4a9}\u{1f4a9}"]), s(&["\u{1f4a9}\u{1f4a9}\u{1f4a9}", "\u{1f4a9}"]), s(&["\u{10ffff}"]), s(&["\u{10000}", "\u{ffff}"]),
        s(&["a\u{1f3fb}"]), s(&["a\u{1f3fb}a\u{1f3fb}"]), s(&["\u{1f1e9}\u{1f1ea}", "\u{1f1e9}"]), s(&["\u{1100}\u{1161}\u{11a8}", "\u{1100}"]), s(&["e\u{301}", "e"]),
        s(&["\u{1f44d}\u{1f3fb}", "\u{1f44d}"]), s(&["\u{200d}"]), s(&["\u{e9}", "\u{c9}"]), s(&["\u{130}", "i"]), s(&["\u{1e9e}", "\u{df}"]), s(&["\u{3a3}", "\u{3c3}", "\u{3c2}"]),
        s(&["\u{212a}", "k"]), s(&["\u{663}", "3"]), s(&["\u{a0}", " "]), s(&["\u{85}"]), s(&["\u{2028}", "\u{2029}"]), s(&["\u{3000}\u{3000}"]), s(&["\u{b}", "\u{c}"]), s(&["\n", "\r\n"]),
        s(&["\u{1b}[1;32m"]), s(&["\u{1b}[0m", "m"]), s(&["\u{7f}", "\u{80}"]), s(&["\u{0}"]), s(&["a\u{0}b"]),
        s(&["I   \u{2665}\u{2665}\u{2665} 36 and \u{663} and y\u{306}y\u{306} and \u{1f4a9}\u{1f4a9}."]),
        s(&["ab", "abb", "a"]), s(&["b", "ab", "aab", "aaab"]), s(&["xyz", "xyzxyz", "xyzxyzxyz"]),
        s(&["Z", "[", "\\"]), s(&["[", "\\", "]", "^"]), s(&["+", ",", "-"]), s(&["\t", "\n", "\u{b}"]), s(&["a.\u{e33}", "b"]), s(&["x+\u{1f3fb}"]), s(&["yes|\u{ff9e}no"]), s(&["\u{111c2}(", "("]),
        s(&["aa1aa1"]), s(&["xx-xx-", "m0m1m"]), s(&["((a((a((b((a((a((b"]), s(&["..a..a.b..a..a.b"]), s(&["aabaabaabaab"]), s(&["\\d\\d", "11"]),
    ];
    for m in crate::space::A_META {
        v.push(vec![m.to_string()]);
        v.push(vec![format!("{m}{m}")]);
    }
    v.push(crate::space::A_META.iter().map(|m| m.to_string()).collect());
    // more than 20 test cases (std's sort switches algorithm there), mixed lengths
    v.push((1..=22u32).map(|i| (i * i).to_string()).collect());
    v.push((1..=120u32).map(|i| i.to_string()).collect());
    v.push((0..64u32).map(|i| format!("{:b}", i * 37 % 251)).collect());
    v.push((1..=40u32).map(|i| "ab".repeat((i % 7 + 1) as usize) + &i.to_string()).collect());
    v
}

pub fn valid_check(ctx: &Ctx, tcs: &[String], cfg: &Cfg) {
    let run = &ctx.run;
    run.eval();
    run.mark_nontrivial(hash_case(tcs, cfg));
    let out = match cfg.build(tcs) {
        Ok(o) => o,
        Err(m) => {
            let sig = format!("panic:{} anchors_off={} u={}", m.lines().next().unwrap_or("").chars().take(60).collect::<String>(), cfg.has(NA) && cfg.has(NE), cfg.has(U));
            return crate::findings::report(ctx, viol("C07", "panic", sig, tcs, cfg, "", json!({"panic": m.chars().take(400).collect::<String>()})));
        }
    };
    if cfg.has(U) || cfg.has(C) {
        return;
    }
    if let Err(e) = lang::parse(&out) {
        return crate::findings::report(ctx, viol("C07", "invalid", format!("syntax:{}", e.chars().take(50).collect::<String>()), tcs, cfg, &out, json!({"error": e})));
    }
    if let Err(e) = lang::compile_real(&out) {
        return crate::findings::report(ctx, viol("C07", "invalid", format!("regex-crate-rejects:{}", e.chars().take(50).collect::<String>()), tcs, cfg, &out, json!({"error": e})));
    }
    if run.want_sample() && cfg.bits.count_ones() > 5 {
        run.sample(case_json(tcs, cfg, &out));
    }
}

fn expect_panic<F: FnOnce() + std::panic::UnwindSafe>(ctx: &Ctx, name: &str, want: Option<&str>, f: F) {
    ctx.run.eval();
    let r = std::panic::catch_unwind(f).map_err(panic_msg);
    let ok = match (&r, want) {
        (Ok(()), None) => true,
        (Err(m), Some(w)) => m == w,
        _ => false,
    };
    if !ok {
        ctx.run.violation(viol("C07", "documented-panic", format!("documented-panic:{name}"), &[], &Cfg::new(0), "", json!({"call": name, "expected": want, "observed": format!("{:?}", r)})));
    }
}

pub fn documented_panics(ctx: &Ctx) {
    let none: [String; 0] = [];
    expect_panic(ctx, "from(&[])", Some("No test cases have been provided for regular expression generation"), move || {
        let _ = RegExpBuilder::from(&none);
    });
    expect_panic(ctx, "with_minimum_repetitions(0)", Some("Quantity of minimum repetitions must be greater than zero"), || {
        RegExpBuilder::from(&["a"]).with_minimum_repetitions(0);
    });
    expect_panic(ctx, "with_minimum_substring_length(0)", Some("Minimum substring length must be greater than zero"), || {
        RegExpBuilder::from(&["a"]).with_minimum_substring_length(0);
    });
    for q in [1u32, 2, 7, u32::MAX] {
        expect_panic(ctx, "with_minimum_repetitions(positive)", None, move || {
            RegExpBuilder::from(&["aaa"]).with_conversion_of_repetitions().with_minimum_repetitions(q).build();
        });
        expect_panic(ctx, "with_minimum_substring_length(positive)", None, move || {
            RegExpBuilder::from(&["aaa"]).with_conversion_of_repetitions().with_minimum_substring_length(q).build();
        });
    }
}

/// Families swept completely for every n in lo..=hi (run in a child process with memory and wall caps).
pub fn family_case(name: &str, n: usize) -> Vec<String> {
    match name {
        "chain" => (1..=n).map(|i| "abcdefghij".chars().cycle().take(i).collect()).collect(),
        "unary" => vec!["a".repeat(n)],
        "long" => vec![(0..n).map(|i| char::from(b'a' + ((i * i + i / 3) % 7) as u8)).collect()],
        "many" => (0..n).map(|i| format!("{:x}", i * 2654435761usize % 1000003)).collect(),
        "period" => vec!["ab".repeat(n), "ab".repeat(n / 2 + 1)],
        _ => panic!("unknown family"),
    }
}

pub fn child(args: &[String]) -> i32 {
    // C07-child <family> <lo> <hi> <step>: prints one JSON line per failure and a final summary line
    std::panic::set_hook(Box::new(|_| {}));
    let (name, lo, hi, step) = (args[0].as_str(), args[1].parse::<usize>().unwrap(), args[2].parse::<usize>().unwrap(), args[3].parse::<usize>().unwrap());
    let cfgs = [Cfg::new(0), Cfg::new(NA | NE), Cfg::new(R), Cfg::new(R | NA | NE)];
    let mut done = 0;
    let mut n = lo;
    let t0 = std::time::Instant::now();
    let budget = std::time::Duration::from_secs(std::env::var("VERIF_CHILD_BUDGET_S").ok().and_then(|s| s.parse().ok()).unwrap_or(240));
    let mut last_done_n = 0;
    while n <= hi {
        if t0.elapsed() > budget {
            break;
        }
        let tcs = family_case(name, n);
        for cfg in &cfgs {
            match cfg.build(&tcs) {
                Err(m) => println!("{}", json!({"family": name, "n": n, "settings": cfg.to_json(), "kind": "panic", "detail": m.chars().take(300).collect::<String>()})),
                Ok(out) => {
                    if let Err(e) = lang::parse(&out) {
                        println!("{}", json!({"family": name, "n": n, "settings": cfg.to_json(), "kind": "invalid", "detail": e}));
                    } else if let Err(e) = lang::compile_real_uncached(&out) {
                        println!("{}", json!({"family": name, "n": n, "settings": cfg.to_json(), "kind": "invalid", "detail": e}));
                    }
                }
            }
            done += 1;
        }
        last_done_n = n;
        n += step;
    }
    println!("{}", json!({"summary": true, "family": name, "lo": lo, "hi": hi, "step": step, "builds": done, "last_n": last_done_n, "complete": n > hi}));
    0
}

fn families(ctx: &Ctx) {
    let exe = std::env::current_exe().expect("current_exe");
    // (family, N, step): every n = 1, 1+step, ... <= N
    let plan: Vec<(&str, usize, usize)> = vec![("chain", 200, 1), ("unary", 600, 1), ("long", 400, 1), ("many", 600, 1), ("period", 300, 1)];
    let mut jobs = vec![];
    for (name, nmax, step) in &plan {
        let parts = 8;
        for p in 0..parts {
            // interleave so that every part has small and large n
            jobs.push((name.to_string(), 1 + p * step, *nmax, step * parts));
        }
    }
    let results = std::sync::Mutex::new(vec![]);
    par_for(jobs.len(), |i| {
        let (name, lo, hi, step) = &jobs[i];
        let cmd = format!("ulimit -v 8000000; exec timeout 900 {} C07-child {} {} {} {}", exe.display(), name, lo, hi, step);
        let out = std::process::Command::new("sh").arg("-c").arg(&cmd).output();
        results.lock().unwrap().push((i, out));
    });
    for (i, out) in results.into_inner().unwrap() {
        let (name, lo, hi, step) = &jobs[i];
        match out {
            Ok(o) => {
                let text = String::from_utf8_lossy(&o.stdout).to_string();
                let mut summarised = false;
                for line in text.lines() {
                    let Ok(v) = serde_json::from_str::<serde_json::Value>(line) else { continue };
                    if v["summary"] == json!(true) {
                        summarised = true;
                        if v["complete"] != json!(true) {
                            ctx.run.cap_hit(format!("family {name} (n = {lo}, {lo}+{step}, ...): wall budget reached, swept completely only up to n = {}", v["last_n"]));
                        }
                        let b = v["builds"].as_u64().unwrap_or(0);
                        ctx.run.evals.fetch_add(b, std::sync::atomic::Ordering::Relaxed);
                        for k in 0..b {
                            ctx.run.mark_nontrivial(hash_case(&[format!("{name}:{lo}:{step}:{k}")], &Cfg::new(0)));
                        }
                    } else {
                        let n = v["n"].as_u64().unwrap_or(0) as usize;
                        let cfg = Cfg::from_json(&v["settings"]);
                        let kind = v["kind"].as_str().unwrap_or("");
                        let sig = format!("family:{name}:{kind} anchors_off={}", cfg.has(NA) && cfg.has(NE));
                        let tcs = vec![format!("<family {name} n={n}>")];
                        crate::findings::report(ctx, viol("C07", "family", sig, &tcs, &cfg, "", json!({"family": name, "n": n, "detail": v["detail"]})));
                    }
                }
                if !summarised {
                    ctx.run.cap_hit(format!("family {name} n={lo}..={hi} step {step}: child ended without summary (status {:?}); nothing claimed for it", o.status.code()));
                }
            }
            Err(e) => ctx.run.machinery_error(format!("cannot spawn family child: {e}")),
        }
    }
    ctx.run.space(json!({"universe": "families chain(n), unary(n), long(n), many(n), period(n): every n from 1 to N", "N": plan.iter().map(|(a, b, _)| json!({"family": a, "N": b})).collect::<Vec<_>>(), "settings": "{}, na+ne, r, r+na+ne", "isolation": "child processes, ulimit -v 8 GB, 240 s internal budget per child (a child that runs out reports the n it reached), 900 s hard cap"}));
}

pub fn run(ctx: &Ctx) {
    let thorough = ctx.run.is_thorough();
    *ctx.run.rule.lock().unwrap() = "curated inputs (one per shortcut visible in the code: epsilon, prefix chains, every metacharacter alone and doubled, backslash inside 2- and 3-scalar clusters, astral repeats, case pairs, exotic whitespace, SGR look-alikes, NUL) x ALL 24,576 API-reachable combinations of the 15 boolean settings x thresholds; oracle: no unwind, and unless u or c is set the output parses with regex-syntax and compiles with the regex crate (nest and size limits raised: they are resource limits, not syntax); documented panics checked exactly; every case is non-trivial by construction (curated) and distinct by hash".into();
    documented_panics(ctx);
    let inputs = curated();
    let all = lattice_all(0, ALL_BITS);
    let thresholds: Vec<(u32, u32)> = if thorough { vec![(1, 1), (2, 1), (1, 2), (3, 3)] } else { vec![(1, 1)] };
    // quick: every 5th curated input x Lambda_full, all curated inputs x Lambda<=3; thorough: all x Lambda_full
    let sel: Vec<Vec<String>> = if thorough { inputs.clone() } else { inputs.iter().enumerate().filter(|(i, _)| i % 5 == 0).map(|(_, v)| v.clone()).collect() };
    let njobs = sel.len() * all.len();
    par_for(njobs, |j| {
        let tcs = &sel[j / all.len()];
        let base = all[j % all.len()];
        for (r, l) in &thresholds {
            if (*r, *l) != (1, 1) && !base.has(R) {
                continue;
            }
            valid_check(ctx, tcs, &Cfg::with(base.bits, *r, *l));
        }
    });
    ctx.run.space(json!({"universe": if thorough {"curated inputs"} else {"every 5th curated input"}, "sets": sel.len(), "settings": "Lambda_full: all 24,576 API-reachable boolean combinations", "settings_count": all.len(), "thresholds": format!("{:?} (non-default thresholds only with r)", thresholds)}));
    if !thorough {
        let k3 = lattice_le(0, ALL_BITS, 3);
        par_for(inputs.len() * k3.len(), |j| {
            let c = k3[j % k3.len()];
            valid_check(ctx, &inputs[j / k3.len()], &c);
            if c.has(R) {
                valid_check(ctx, &inputs[j / k3.len()], &Cfg::with(c.bits, 2, 2));
            }
        });
        ctx.run.space(json!({"universe": "all curated inputs", "sets": inputs.len(), "settings": "Lambda<=3 incl. u and c; thresholds (1,1) and, with r, (2,2)", "settings_count": k3.len()}));
    }
    {
        // every White_Space scalar and '#' (what verbose mode must escape) first in the pattern or first in a
        // branch with a quantifier behind it: an unescaped one is skipped by the engine and the quantifier has
        // nothing to repeat
        let mut ws: Vec<char> = ctx.k.s.ranges().iter().flat_map(|r| (r.start() as u32..=r.end() as u32).filter_map(char::from_u32)).collect();
        ws.push('#');
        let cfgs = lattice_le(X, ALL_BITS, 2);
        let shapes = |c: char| -> Vec<Vec<String>> {
            vec![vec![c.to_string().repeat(3)], vec![c.to_string()], vec![format!("a{c}"), format!("a{c}{c}{c}{c}b"), "b".to_string()], vec![format!("{c}{c}a"), format!("{c}{c}{c}")], vec![format!("{c}a{c}a")]]
        };
        par_for(ws.len(), |i| {
            for t in shapes(ws[i]) {
                for c in &cfgs {
                    valid_check(ctx, &t, c);
                }
            }
        });
        ctx.run.space(json!({"universe": "U_ws_units: every White_Space scalar and '#' as [ccc], [c], [ac, accccb, b], [cca, ccc], [caca]", "sets": ws.len() * 5, "settings": "x + Lambda<=2 incl. u and c", "settings_count": cfgs.len(), "cases": ws.len() * 5 * cfgs.len()}));
    }
    {
        // every pair of scalar kinds next to each other, and runs of consecutive code points (class ranges)
        let k1 = lattice_le(0, ALL_BITS, 1);
        let k2 = lattice_le(0, ALL_BITS, 2);
        let plan: Vec<(crate::space::Universe, Vec<Cfg>, &str)> = if thorough {
            vec![
                (crate::space::u_kind_pairs(2, 2, false), k2.clone(), "Lambda<=2 incl. u and c"),
                (crate::space::u_kind_pairs(3, 1, false), k2.clone(), "Lambda<=2 incl. u and c"),
                (crate::space::u_runs(), lattice_le(0, ALL_BITS, 3), "Lambda<=3 incl. u and c"),
                (crate::space::u_kind_triples(), k2.clone(), "Lambda<=2 incl. u and c"),
                (crate::space::u_many(150), k2.clone(), "Lambda<=2 incl. u and c"),
                (crate::space::u_nested_rep(), lattice_le(R, ALL_BITS, 2), "r + Lambda<=2 incl. u and c"),
                (crate::space::u_nested_rep(), vec![Cfg::new(R | G | E | U)], "r+g+e+u"),
                (crate::space::u_long_literal_at(), lattice_le(X, ALL_BITS, 1), "x + Lambda<=1 incl. u and c"),
                (crate::space::u_kind_triples(), vec![Cfg::new(X | NA | NE)], "x+na+ne"),
            ]
        } else {
            vec![(crate::space::u_kind_pairs(2, 1, false), k1.clone(), "Lambda<=1 incl. c"), (crate::space::u_kind_pairs(1, 2, false), k1.clone(), "Lambda<=1 incl. c"), (crate::space::u_runs(), k1.clone(), "Lambda<=1 incl. c"), (crate::space::u_kind_triples(), vec![Cfg::new(0), Cfg::new(X), Cfg::new(X | NA | NE), Cfg::new(E | U), Cfg::new(C)], "{}, x, x+na+ne, e+u, c"), (crate::space::u_many(40), k1.clone(), "Lambda<=1 incl. c"), (crate::space::u_nested_rep(), vec![Cfg::new(R), Cfg::new(R | X), Cfg::new(R | C), Cfg::new(R | E), Cfg::new(R | G | E | U)], "r, r+x, r+c, r+e, r+g+e+u"), (crate::space::u_long_literal_at(), vec![Cfg::new(X), Cfg::new(X | C), Cfg::new(X | E | U)], "x, x+c, x+e+u")]
        };
        for (u, cfgs, desc) in plan {
            par_for(u.len(), |i| {
                let t = u.set(i);
                for c in &cfgs {
                    valid_check(ctx, &t, c);
                }
            });
            ctx.run.space(json!({"universe": u.name, "sets": u.len(), "settings": desc, "settings_count": cfgs.len(), "cases": u.len() * cfgs.len()}));
        }
    }
    if thorough {
        let u = crate::space::Universe::new("U_ab3{a,b}", &["a", "b"], 3, 0, true);
        let k3 = lattice_le(0, ALL_BITS, 2);
        par_for(u.len(), |i| {
            let t = u.set(i);
            for c in &k3 {
                valid_check(ctx, &t, c);
            }
        });
        ctx.run.space(json!({"universe": u.name, "sets": u.len(), "settings": "Lambda<=2 incl. u and c", "settings_count": k3.len()}));
        families(ctx);
    }
}
