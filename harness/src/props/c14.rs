//! C14 Python binding returns the library's pattern in Python escape syntax.
use crate::cfgs::*;
use crate::core::*;
use crate::ev::hash_case;
use crate::lang;
use crate::space::*;
use serde_json::{json, Value};
use std::io::Write;

/// Independent rewrite of the library result: every \u{h..} token -> \uXXXX (<= U+FFFF) or \UXXXXXXXX.
pub fn to_python(lib: &str) -> String {
    let toks = lang::scan_escapes(lib);
    let mut out = String::new();
    let mut pos = 0;
    for t in &toks {
        out.push_str(&lib[pos..t.start]);
        if t.value <= 0xFFFF {
            out.push_str(&format!("\\u{:04x}", t.value));
        } else {
            out.push_str(&format!("\\U{:08x}", t.value));
        }
        pos = t.end;
    }
    out.push_str(&lib[pos..]);
    out
}

pub fn run(ctx: &Ctx) {
    let thorough = ctx.run.is_thorough();
    let run = &ctx.run;
    let pydir = match std::env::var("VERIF_PYMOD_DIR") {
        Ok(d) if std::path::Path::new(&format!("{d}/grex.so")).exists() => d,
        _ => return run.machinery_error("VERIF_PYMOD_DIR not set or grex.so missing (the check driver builds the extension from /repo)".into()),
    };
    *run.rule.lock().unwrap() = "real extension module built from /repo (python feature) imported by CPython; subsets (size<=2) of the hex-width alphabet (U+007F..U+10FFFF: 2,3,4,5,6 hex digits, plus U+1F4A9, 'a', space, NBSP, backslash) ^<=2 x {{}, e, e+u} x deviation-bounded lattice of the other flags; oracle: extension result == independent token-level rewrite of the in-process Rust library result, re.compile succeeds, and (no class flag, no u) re.fullmatch on every test case; ValueError cases for empty lists and non-positive thresholds with the library's messages; plus escape look-alikes: every string with a backslash over {\\, u, U, {, }, 2, e, x, N}^<=4 (5 in thorough) and pairs over {\\, u, {, 2}^<=4 containing \\u, under {}, r, r+x, r+g x {{}, e, e+u}; non-trivial = case contains a non-ASCII scalar or a backslash; distinct by hash".into();
    let alpha: Vec<&str> = A_ESC.iter().copied().chain(["a", " ", "\u{a0}", "\\"]).collect();
    let u = Universe::new("U_adv(A_esc+a+sp+nbsp)", &alpha, 2, 2, false);
    let free = D | ND | S | NS | W | NW | R | I | G | X | NA | NE;
    let others = lattice_le(0, free, if thorough { 2 } else { 1 });
    let mut cases: Vec<(Vec<String>, Cfg)> = vec![];
    let stride = if thorough { 7 } else { 29 };
    for i in 0..u.len() {
        let t = u.set(i);
        for (j, o) in others.iter().enumerate() {
            // singles get every setting; pairs get every 29th (quick) / 7th (thorough) setting, rotating with the set index so that all settings meet pairs of every shape
            if t.len() > 1 && (i + j) % stride != 0 {
                continue;
            }
            for esc in [0, E, E | U] {
                cases.push((t.clone(), Cfg::new(o.bits | esc)));
            }
        }
    }
    // text that merely LOOKS like an escape: literal backslashes, `u`, `U`, `x`, `N`, braces and hex digits in the
    // test cases themselves, with and without repetition conversion (`\\uu` becomes `\\\\u{2}`: an escaped backslash
    // followed by a quantified `u`, which the rewrite to Python syntax must leave alone)
    let look = Universe::new("U_lookalike{\\,u,U,{,},2,e,x,N}", &["\\", "u", "U", "{", "}", "2", "e", "x", "N"], if thorough { 5 } else { 4 }, 1, false);
    for i in 0..look.len() {
        let t = look.set(i);
        if !t[0].contains('\\') {
            continue;
        }
        for base in [0, R, R | X, R | G] {
            for esc in [0, E, E | U] {
                cases.push((t.clone(), Cfg::new(base | esc)));
            }
        }
    }
    let pairs = Universe::new("U_lookalike pairs{\\,u,{,2}", &["\\", "u", "{", "2"], 4, 2, false);
    for i in 0..pairs.len() {
        let t = pairs.set(i);
        if t.len() == 2 && t.iter().any(|x| x.contains("\\u")) {
            cases.push((t.clone(), Cfg::new(R)));
            cases.push((t, Cfg::new(R | E)));
        }
    }
    // call histories: every sequence of setter calls up to the depth bound over the Python setter alphabet,
    // on one astral + BMP + ASCII input; expected = the Rust builder driven by the same sequence
    let hist_ops: Vec<(&str, Value)> = vec![
        ("d", json!(null)), ("W", json!(null)), ("r", json!(null)), ("i", json!(null)), ("g", json!(null)), ("x", json!(null)), ("na", json!(null)), ("ne", json!(null)),
        ("nane", json!(null)), ("e", json!(false)), ("e", json!(true)), ("minrep", json!(2)), ("minlen", json!(2)), ("build", json!(null)),
        ("minrep_bad", json!(0)), ("minlen_bad", json!(-1)),
    ];
    let hist_input: Vec<String> = vec!["a\u{1f4a9}\u{1f4a9}\u{e9}1".to_string(), "A\u{10ffff} 1".to_string()];
    let depth = if thorough { 4 } else { 3 };
    let mut histories: Vec<Vec<usize>> = vec![vec![]];
    let mut layer: Vec<Vec<usize>> = vec![vec![]];
    for _ in 0..depth {
        let mut next = vec![];
        for h in &layer {
            for o in 0..hist_ops.len() {
                let mut n = h.clone();
                n.push(o);
                next.push(n);
            }
        }
        histories.extend(next.iter().cloned());
        layer = next;
    }
    let cache = format!("{}/.cache", crate::ev::root());
    let _ = std::fs::create_dir_all(&cache);
    let cases_path = format!("{cache}/c14_cases_{}.jsonl", std::process::id());
    let results_path = format!("{cache}/c14_results_{}.jsonl", std::process::id());
    let mut specials: Vec<Value> = vec![];
    {
        let mut f = std::io::BufWriter::new(std::fs::File::create(&cases_path).expect("cases file"));
        for (id, (t, c)) in cases.iter().enumerate() {
            writeln!(f, "{}", json!({"id": id, "test_cases": t, "flags": c.flag_names(), "minrep": c.minrep, "minlen": c.minlen})).unwrap();
        }
        for (k, h) in histories.iter().enumerate() {
            let ops: Vec<Value> = h.iter().map(|o| json!([hist_ops[*o].0, hist_ops[*o].1])).collect();
            writeln!(f, "{}", json!({"id": cases.len() + k, "test_cases": hist_input, "flags": [], "ops": ops})).unwrap();
        }
        let mut id = cases.len() + histories.len();
        let mut sps = vec![json!({"special": "empty_list"}), json!({"special": "empty_list_classmethod"})];
        // threshold arguments over the whole i32 range: the extremes, the values around zero, ordinary and huge ones;
        // a positive value must be accepted and build() must then equal the library's result for that threshold
        for val in [0i64, -1, -2, -1000, i32::MIN as i64, 1, 2, 3, 7, 1000, 65536, i32::MAX as i64 - 1, i32::MAX as i64] {
            sps.push(json!({"special": "minrep", "value": val}));
            sps.push(json!({"special": "minlen", "value": val}));
        }
        for sp in sps {
            let mut v = sp.clone();
            v["id"] = json!(id);
            v["test_cases"] = json!(["aaaaaaaa", "abababab", "xyzxyz"]);
            v["flags"] = json!([]);
            writeln!(f, "{}", v).unwrap();
            specials.push(v);
            id += 1;
        }
    }
    let driver = format!("{}/py/c14_driver.py", crate::ev::root());
    let py = std::env::var("VERIF_PYTHON").unwrap_or_else(|_| "python3".into());
    // two interpreter processes over the same cases, one in file order and one in reverse order: whatever the
    // extension keeps between calls (statics, caches) sees two different histories
    let results_rev_path = format!("{cache}/c14_results_rev_{}.jsonl", std::process::id());
    let fwd = std::process::Command::new(&py).args([&driver, &pydir, &cases_path, &results_path]).spawn();
    let rev = std::process::Command::new(&py).args([&driver, &pydir, &cases_path, &results_rev_path, &"reverse".to_string()]).spawn();
    for (name, child) in [("forward", fwd), ("reverse", rev)] {
        match child.and_then(|c| c.wait_with_output()) {
            Ok(o) if o.status.success() => {}
            Ok(o) => return run.machinery_error(format!("python driver ({name}) failed: {:?}", o.status)),
            Err(e) => return run.machinery_error(format!("cannot start {py}: {e}")),
        }
    }
    {
        let a = std::fs::read_to_string(&results_path).unwrap_or_default();
        let b = std::fs::read_to_string(&results_rev_path).unwrap_or_default();
        let (la, lb): (Vec<&str>, Vec<&str>) = (a.lines().collect(), b.lines().collect());
        if la.len() != lb.len() {
            return run.machinery_error("python driver: forward and reverse runs returned different numbers of results".into());
        }
        let mut differing = 0;
        let mut first: Option<(String, String)> = None;
        for (x, y) in la.iter().zip(&lb) {
            run.eval();
            if x != y {
                differing += 1;
                if first.is_none() {
                    first = Some((x.to_string(), y.to_string()));
                }
            }
        }
        if let Some((x, y)) = first {
            run.violation(viol("C14", "py", "python-result-depends-on-call-order-within-the-process".into(), &[], &Cfg::new(0), "", json!({"differing_cases": differing, "forward": x.chars().take(400).collect::<String>(), "reverse": y.chars().take(400).collect::<String>()})));
        }
        let _ = std::fs::remove_file(&results_rev_path);
    }
    let text = std::fs::read_to_string(&results_path).unwrap_or_default();
    let results: Vec<Value> = text.lines().filter_map(|l| serde_json::from_str(l).ok()).collect();
    if results.len() != cases.len() + histories.len() + specials.len() {
        return run.machinery_error(format!("python driver returned {} results for {} cases", results.len(), cases.len() + histories.len() + specials.len()));
    }
    // histories: drive the real Rust builder with the same call sequence
    for (k, h) in histories.iter().enumerate() {
        run.eval();
        let r = &results[cases.len() + k];
        let names: Vec<String> = h.iter().map(|o| format!("{}{}", hist_ops[*o].0, if hist_ops[*o].1.is_null() { String::new() } else { format!("({})", hist_ops[*o].1) })).collect();
        let hi = hist_input.clone();
        let hh = h.clone();
        let ops = hist_ops.clone();
        let lib = std::panic::catch_unwind(move || {
            let mut b = grex::RegExpBuilder::from(&hi);
            for o in hh {
                match (ops[o].0, &ops[o].1) {
                    ("d", _) => { b.with_conversion_of_digits(); }
                    ("W", _) => { b.with_conversion_of_non_words(); }
                    ("r", _) => { b.with_conversion_of_repetitions(); }
                    ("i", _) => { b.with_case_insensitive_matching(); }
                    ("g", _) => { b.with_capturing_groups(); }
                    ("x", _) => { b.with_verbose_mode(); }
                    ("na", _) => { b.without_start_anchor(); }
                    ("ne", _) => { b.without_end_anchor(); }
                    ("nane", _) => { b.without_anchors(); }
                    ("e", v) => { b.with_escaping_of_non_ascii_chars(v.as_bool().unwrap()); }
                    ("minrep", v) => { b.with_minimum_repetitions(v.as_u64().unwrap() as u32); }
                    ("minlen", v) => { b.with_minimum_substring_length(v.as_u64().unwrap() as u32); }
                    ("build", _) => { b.build(); }
                    // a rejected call (ValueError in Python, panic in Rust) must leave the builder as it was
                    ("minrep_bad", _) | ("minlen_bad", _) => {}
                    _ => unreachable!(),
                }
            }
            b.build()
        });
        let Ok(lib) = lib else { continue };
        run.mark_nontrivial(hash_case(&names, &Cfg::new(0)));
        let expect = to_python(&lib);
        let out = r["out"].as_str().unwrap_or("");
        let styles_ok = r["out_chain_original"].as_str() == Some(out) && r["out_chain_last"].as_str() == Some(out);
        if r.get("error").is_some() || out != expect || r["out_again"].as_str() != Some(out) {
            run.violation(viol("C14", "py", format!("python-history-differs last_op={}", names.last().cloned().unwrap_or_default()), &hist_input, &Cfg::new(0), out, json!({"history": names, "expected": expect, "library": lib, "error": r.get("error")})));
        } else if !styles_ok {
            run.violation(viol("C14", "py", format!("python-chained-calls-differ last_op={}", names.last().cloned().unwrap_or_default()), &hist_input, &Cfg::new(0), out, json!({"history": names, "expected": expect, "statements": out, "chain_build_on_original": r["out_chain_original"], "chain_build_on_last_returned": r["out_chain_last"]})));
        } else if run.want_sample() && h.len() == depth {
            run.sample(json!({"history": names, "python": out}));
        }
    }
    run.space(json!({"engine": "call histories on the real extension: every sequence of setter calls (16-symbol alphabet incl. escape(False/True), thresholds, rejected threshold calls, build) up to the depth bound, each in three calling styles (statements; chained through the returned objects with build() on the original; chained with build() on the last returned object); expected = real Rust builder driven by the same sequence", "depth": depth, "histories": histories.len()}));
    for (id, (t, c)) in cases.iter().enumerate() {
        run.eval();
        if t.iter().any(|s| !s.is_ascii() || s.contains('\\')) {
            run.mark_nontrivial(hash_case(t, c));
        }
        let r = &results[id];
        let lib = match c.build(t) {
            Ok(l) => l,
            Err(_) => continue,
        };
        let expect = to_python(&lib);
        let flags = c.flag_names().join(",");
        if let Some(e) = r.get("error") {
            run.violation(viol("C14", "py", format!("python-raised:{}", e["type"].as_str().unwrap_or("")), t, c, "", json!({"error": e, "library": lib})));
            continue;
        }
        let out = r["out"].as_str().unwrap_or("");
        if out != expect || r["out_again"].as_str() != Some(out) {
            let widths: Vec<usize> = lang::scan_escapes(&lib).iter().map(|t| t.digits.len()).collect();
            run.violation(viol("C14", "py", format!("python-result-differs escape_widths={:?} e={} u={}", widths.iter().collect::<std::collections::BTreeSet<_>>(), c.has(E), c.has(U)), t, c, out, json!({"expected": expect, "library": lib, "second_build": r["out_again"]})));
            continue;
        }
        if r["compiled"] != json!(true) {
            run.violation(viol("C14", "py", format!("python-re-rejects flags={flags}"), t, c, out, json!({"compile_error": r["compile_error"]})));
            continue;
        }
        if c.bits & (CLASS_BITS | U) == 0 {
            if let Some(fm) = r["fullmatch"].as_array() {
                if let Some(i) = fm.iter().position(|b| b != &json!(true)) {
                    run.violation(viol("C14", "py", format!("python-fullmatch-fails flags={flags}"), t, c, out, json!({"test_case": t[i]})));
                    continue;
                }
            }
        }
        if run.want_sample() && c.has(E) {
            run.sample(json!({"test_cases": t, "settings": c.name(), "library": lib, "python": out}));
        }
    }
    // ValueError cases
    let msgs = [
        ("empty_list", "No test cases have been provided for regular expression generation"),
        ("empty_list_classmethod", "No test cases have been provided for regular expression generation"),
        ("minrep", "Quantity of minimum repetitions must be greater than zero"),
        ("minlen", "Minimum substring length must be greater than zero"),
    ];
    for (k, sp) in specials.iter().enumerate() {
        run.eval();
        let r = &results[cases.len() + histories.len() + k];
        let kind = sp["special"].as_str().unwrap();
        let positive = sp.get("value").and_then(|v| v.as_i64()).map_or(false, |v| v > 0);
        let want_msg = msgs.iter().find(|(n, _)| *n == kind).unwrap().1;
        let ok = if positive {
            let val = sp["value"].as_i64().unwrap() as u32;
            let t: Vec<String> = sp["test_cases"].as_array().unwrap().iter().map(|x| x.as_str().unwrap().to_string()).collect();
            let c = if kind == "minrep" { Cfg::with(R, val, 1) } else { Cfg::with(R, 1, val) };
            let expect = c.build(&t).map(|l| to_python(&l)).unwrap_or_default();
            r.get("error").is_none() && r["out"].as_str() == Some(expect.as_str())
        } else {
            r["error"]["type"] == json!("ValueError") && r["error"]["msg"] == json!(want_msg)
        };
        if !ok {
            run.violation(viol("C14", "py", format!("value-error:{kind}"), &[], &Cfg::new(0), "", json!({"case": sp, "observed": r, "expected_message": want_msg})));
        }
    }
    run.space(json!({"universe": u.name, "sets": u.len(), "settings": format!("{{{{}}, e, e+u}} x Lambda<={} of d,D,s,S,w,W,r,i,g,x,na,ne", if thorough {2} else {1}), "cases": cases.len(), "value_error_cases": specials.len(), "python": py}));
    let _ = std::fs::remove_file(&cases_path);
    let _ = std::fs::remove_file(&results_path);
}
