//! C03 Shorthand classes generalise exactly as documented (all 64 subsets of the six options).
use crate::cfgs::*;
use crate::core::*;
use crate::space::*;
use crate::sweep::*;

pub fn check_case(ctx: &Ctx, tcs: &[String], cfg: &Cfg) {
    check_spec_eq(ctx, "C03", tcs, cfg)
}

fn class_cfgs(bases: &[u32]) -> Vec<Cfg> {
    let mut v = vec![];
    for b in bases {
        v.extend(lattice_all(*b, CLASS_BITS));
    }
    v.sort();
    v.dedup();
    v
}

pub fn blocks(thorough: bool) -> Vec<Block> {
    let mut b = vec![];
    let mix: Vec<&str> = A_CLS.iter().copied().chain(["(", "\\", "A"]).collect();
    if !thorough {
        b.push(Block::new(Universe::new("U_adv(A_cls)", A_CLS, 2, 2, true), class_cfgs(&[0, I, R]), "64 class subsets x {{}, i, r}"));
        b.push(Block::new(Universe::new("U_adv(A_cls+meta)", &mix, 2, 1, true), class_cfgs(&[0, X, G, E, I | X, R | X]), "64 class subsets x {{}, x, g, e, i+x, r+x}"));
        b.push(Block::new(Universe::new("U_a1{a,1}", &["a", "1"], 2, 0, false), class_cfgs(&[0, R, I]), "64 class subsets x {{}, r, i}"));
        b.push(Block::new(Universe::new("U_adv(A_gc)", A_GC, 2, 1, false), class_cfgs(&[0, R]), "64 class subsets x {{}, r}"));
        b.push(Block::new(Universe::new("U_tok{\\d,1,\\,d}", &["\\d", "1", "\\", "d"], 2, 2, false), class_cfgs(&[0, R]), "64 class subsets x {{}, r}"));
        b.push(Block::new(Universe::new("U_tok{\\d,1,\\,d}", &["\\d", "1", "\\", "d"], 3, 2, false), vec![Cfg::new(D | R), Cfg::new(D | W | R), Cfg::new(D | NS | R)], "d+r, d+w+r, d+S+r"));
        b.push(Block::new(Universe::new("U_adv(A_gcm)", A_GCM, 2, 1, false), class_cfgs(&[0]), "64 class subsets"));
        b.push(Block::new(u_prefix_suffix(), class_cfgs(&[0]), "64 class subsets"));
        b.push(Block::new(Universe::new("U_pairs{a,1,sp}^<=4", &["a", "1", " "], 4, 2, false), vec![Cfg::new(D | R | G), Cfg::new(S | R | G), Cfg::new(W | R | G | X), Cfg::new(D | R), Cfg::new(ND | R | G | I)], "d+r+g, s+r+g, w+r+g+x, d+r, D+r+g+i (optional runs of class tokens)"));
        b.push(Block::new(Universe::new("U_i{U+0130,a,-,1}", &["\u{130}", "a", "-", "1"], 2, 2, false), class_cfgs(&[I, I | R]), "64 class subsets x {i, i+r} (test cases that keep their upper-case form)"));
        b.push(Block::new(Universe::new("U_quads{1,a,-,sp}", &["1", "a", "-", " "], 2, 4, false), vec![Cfg::new(D | W), Cfg::new(D | NS), Cfg::new(W | NS), Cfg::new(S | ND), Cfg::new(S | NW), Cfg::new(NW | ND), Cfg::new(D | W | S), Cfg::new(D | W | R)], "d+w, d+S, w+S, s+D, s+W, W+D, d+w+s, d+w+r (nested classes at one position, sets of <= 4: unions of paths that share a prefix or suffix)"));
        b.push(Block::new(u_kind_pairs(1, 2, false), class_cfgs(&[0]), "64 class subsets"));
        b.push(Block::new(u_runs(), vec![Cfg::new(D), Cfg::new(W), Cfg::new(S), Cfg::new(ND), Cfg::new(NW), Cfg::new(NS), Cfg::new(D | NW | S)], "d, w, s, D, W, S, d+W+s"));
        b.push(Block::new(u_many(30), vec![Cfg::new(D), Cfg::new(W), Cfg::new(D | NW), Cfg::new(ND | W), Cfg::new(D | R)], "d, w, d+W, D+w, d+r"));
        b.push(Block::new(u_prefix_suffix2(4), vec![Cfg::new(D), Cfg::new(W)], "d, w"));
        b.push(Block::new(u_alias_pairs(), class_cfgs(&[0]), "64 class subsets"));
        b.push(Block::new(Universe::new("U_adv(A_esc)", A_ESC, 2, 1, false), class_cfgs(&[0]), "64 class subsets"));
        b.push(Block::new(u_feature_rich(), lattice_all(0, ALL_BITS & !(U | C)), "Lambda_full (no u,c): all 8,192 combinations against the spec"));
        b.push(Block::new(Universe::new("U_i3{U+0130,a,-,1,sp}", &["\u{130}", "a", "-", "1", " "], 3, 1, false), class_cfgs(&[I | R, I]), "64 class subsets x {i+r, i} (a test case that keeps its capital next to repeated class members)"));
        b.push(Block::new(u_kind_triples(), vec![Cfg::new(D | NW | S), Cfg::new(W | NS), Cfg::new(ND)], "d+W+s, w+S, D"));
        b.push(Block::new(u_corpus("U_large_cls", verif_seed() + 5, 500, &["a", "1", "-", "\u{663}"], (8, 14), (3, 6)), vec![Cfg::new(D), Cfg::new(W), Cfg::new(D | NW), Cfg::new(D | W | R)], "d, w, d+W, d+w+r (corpus of large sets)"));
    } else {
        b.push(Block::new(u_corpus("U_large_cls", verif_seed() + 5, 20_000, &["a", "1", "-", "\u{663}"], (8, 14), (3, 6)), class_cfgs(&[0]), "64 class subsets (corpus)"));
        b.push(Block::new(Universe::new("U_adv(A_gc)", A_GC, 2, 2, false), class_cfgs(&[0, R]), "64 class subsets x {{}, r}"));
        b.push(Block::new(Universe::new("U_adv(A_gcm)", A_GCM, 3, 1, false), class_cfgs(&[0, R]), "64 class subsets x {{}, r}"));
        b.push(Block::new(Universe::new("U_adv(A_cls)", A_CLS, 2, 2, true), class_cfgs(&[0, I, X, G, E, R, I | R, X | G | E]), "64 class subsets x {{}, i, x, g, e, r, i+r, x+g+e}"));
        b.push(Block::new(Universe::new("U_adv(A_cls)", A_CLS, 3, 2, true), class_cfgs(&[0]), "64 class subsets"));
        b.push(Block::new(Universe::new("U_adv(A_cls)", A_CLS, 3, 1, false), class_cfgs(&[R, I, X | E]), "64 class subsets x {r, i, x+e}"));
        b.push(Block::new(Universe::new("U_adv(A_cls)", A_CLS, 2, 3, true), class_cfgs(&[0]), "64 class subsets"));
        b.push(Block::new(Universe::new("U_adv(A_cls+meta)", &mix, 2, 2, true), class_cfgs(&[0, X, G, E, I | X, R | X]), "64 class subsets x {{}, x, g, e, i+x, r+x}"));
        b.push(Block::new(Universe::new("U_a1{a,1}", &["a", "1"], 3, 0, false), class_cfgs(&[0, R]), "64 class subsets x {{}, r}"));
        b.push(Block::new(Universe::new("U_ab3{a,b}", &["a", "b"], 3, 0, false), class_cfgs(&[0]), "64 class subsets"));
        b.push(Block::new(Universe::new("U_quads{1,a,-,sp}", &["1", "a", "-", " "], 2, 4, false), class_cfgs(&[0]), "64 class subsets"));
        b.push(Block::new(Universe::new("U_quints{1,a,-}", &["1", "a", "-"], 2, 5, false), vec![Cfg::new(D | W), Cfg::new(D | NS), Cfg::new(W | NS), Cfg::new(S | ND), Cfg::new(NW | ND), Cfg::new(D | W | R)], "d+w, d+S, w+S, s+D, W+D, d+w+r"));
        b.push(Block::new(Universe::new("U_triples{1,a,-}^<=3", &["1", "a", "-"], 3, 3, false), vec![Cfg::new(D | W), Cfg::new(D | NS), Cfg::new(NW | ND)], "d+w, d+S, W+D"));
        b.push(Block::new(u_kind_pairs(2, 1, false), class_cfgs(&[0, R]), "64 class subsets x {{}, r}"));
        b.push(Block::new(u_kind_pairs(2, 2, false), vec![Cfg::new(D), Cfg::new(W), Cfg::new(S), Cfg::new(ND), Cfg::new(NW), Cfg::new(NS), Cfg::new(D | NW | S), Cfg::new(S | ND)], "d, w, s, D, W, S, d+W+s, s+D"));
        b.push(Block::new(u_runs(), class_cfgs(&[0, I]), "64 class subsets x {{}, i}"));
        b.push(Block::new(u_many(100), vec![Cfg::new(D), Cfg::new(W), Cfg::new(D | NW), Cfg::new(ND | W), Cfg::new(D | R), Cfg::new(S | ND)], "d, w, d+W, D+w, d+r, s+D"));
        b.push(Block::new(u_prefix_suffix2(4), vec![Cfg::new(D), Cfg::new(W), Cfg::new(D | W), Cfg::new(D | R), Cfg::new(NW | D)], "d, w, d+w, d+r, W+d"));
        b.push(Block::new(u_kind_triples(), class_cfgs(&[0]), "64 class subsets"));
    }
    if thorough {
        // the thorough space is a superset of the quick one: every quick block first, then the deeper ones
        let mut all = blocks(false);
        all.extend(b);
        return all;
    }
    b
}

pub fn run(ctx: &Ctx) {
    *ctx.run.rule.lock().unwrap() = "subsets (size bound m) of Sigma^<=k over class-discriminating alphabets (letter, ASCII digit, space, '-', ARABIC-INDIC DIGIT THREE, '_', e-acute, metacharacters) x ALL 64 subsets of {d,D,s,S,w,W} x listed base settings; spec = concatenation of per-code-point sets using regex-syntax's own \\d \\w \\s tables and the documented precedence; product automaton explored completely per case; non-trivial as in C01; distinct by hash".into();
    sweep(ctx, &blocks(ctx.run.is_thorough()), check_case);
    // every first and last member (+-1) of a range of the \d, \w, \s tables, alone and between a letter and a
    // digit, under all 64 class subsets: a table lookup that is off by one at either end of a range or of the
    // whole table changes the class of exactly such a code point
    let b = crate::props::class_table_boundaries(&ctx.k);
    let cfgs = class_cfgs(&[0]);
    crate::ev::par_for(b.len(), |i| {
        for t in [vec![b[i].to_string()], vec![format!("a{}1", b[i])]] {
            for c in &cfgs {
                ctx.run.mark_nontrivial(crate::ev::hash_case(&t, c));
                check_case(ctx, &t, c);
            }
        }
    });
    ctx.run.space(serde_json::json!({"universe": "U_table_boundaries: every first/last member +-1 of a range of the \\d, \\w, \\s tables as [c] and [\"a c 1\"]", "sets": b.len() * 2, "settings": "64 class subsets", "cases": b.len() * 2 * cfgs.len()}));
}
