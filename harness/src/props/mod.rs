pub mod c01;
pub mod c02;
pub mod c03;
pub mod c04;
pub mod c05;
pub mod c06;
pub mod c07;
pub mod c08;
pub mod c09;
pub mod c10;
pub mod c11;
pub mod c12;
pub mod c13;
pub mod c14;
pub mod c15;
pub mod c16;

use crate::spec::Classes;
use regex_syntax::hir::{ClassUnicode, ClassUnicodeRange};

fn push_near(v: &mut Vec<u32>, c: u32, r: u32) {
    for d in 0..=r {
        v.push(c.saturating_sub(d));
        v.push((c + d).min(0x10FFFF));
    }
}

/// Every scalar at (+-1) the first or last member of a range of the regex crate's \d, \w, \s tables.
pub fn class_table_boundaries(k: &Classes) -> Vec<char> {
    let mut v: Vec<u32> = vec![];
    for cls in [&k.d, &k.w, &k.s] {
        for r in cls.ranges() {
            push_near(&mut v, r.start() as u32, 1);
            push_near(&mut v, r.end() as u32, 1);
        }
    }
    v.sort_unstable();
    v.dedup();
    v.into_iter().filter_map(char::from_u32).collect()
}

/// Quick: every scalar at (+-1) a boundary of the regex crate's \d \w \s tables, every scalar with a
/// non-trivial simple case folding or std case mapping (+-1), +-2 around the escape-width boundaries and
/// the surrogate gap, and the first scalar of every 256-block. Thorough: all 1,112,064 scalars.
pub fn scalar_slice(thorough: bool, k: &Classes) -> Vec<char> {
    if thorough {
        return (0..=0x10FFFFu32).filter_map(char::from_u32).collect();
    }
    let mut v: Vec<u32> = vec![];
    for cls in [&k.d, &k.w, &k.s] {
        for r in cls.ranges() {
            push_near(&mut v, r.start() as u32, 1);
            push_near(&mut v, r.end() as u32, 1);
        }
    }
    for b in [0x7F, 0x80, 0xFF, 0x100, 0xFFF, 0x1000, 0xFFFF, 0x10000, 0xFFFFF, 0x100000, 0x10FFFF, 0xD7FF, 0xE000] {
        push_near(&mut v, b, 2);
    }
    for c in (0..=0x10FFFFu32).step_by(256) {
        v.push(c);
    }
    for c in (0..=0x10FFFFu32).filter_map(char::from_u32) {
        let mut cls = ClassUnicode::new([ClassUnicodeRange::new(c, c)]);
        cls.case_fold_simple();
        let folded = cls.ranges().len() != 1 || cls.ranges()[0].start() != cls.ranges()[0].end();
        let lower: String = c.to_lowercase().collect();
        let upper: String = c.to_uppercase().collect();
        if folded || lower != c.to_string() || upper != c.to_string() {
            push_near(&mut v, c as u32, 1);
        }
    }
    for c in 0..=0x2FFu32 {
        v.push(c);
    }
    v.sort_unstable();
    v.dedup();
    v.into_iter().filter_map(char::from_u32).collect()
}
