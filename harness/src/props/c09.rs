//! C09 Digit/word/space classification agrees with the regex crate on every code point.
use crate::cfgs::*;
use crate::core::*;
use crate::ev::par_for;
use crate::lang;
use crate::spec::{self, Classes};
use serde_json::json;
use std::sync::atomic::{AtomicU64, Ordering};

const TOKENS: [&str; 6] = ["\\d", "\\D", "\\s", "\\S", "\\w", "\\W"];

/// One (scalar, class-flag subset) case. Returns true if the scalar got converted.
fn check(ctx: &Ctx, c: char, bits: u32, k: &Classes) -> bool {
    let cfg = Cfg::new(bits);
    let tcs = [c.to_string()];
    let want = spec::class_token(c, &cfg, k);
    let out = match cfg.build(&tcs) {
        Ok(o) => o,
        Err(m) => {
            ctx.run.violation(viol("C09", "panic", "panic".into(), &tcs, &cfg, "", json!({"panic": m})));
            return false;
        }
    };
    let mut got = TOKENS.iter().find(|t| out == format!("^{t}$")).copied();
    if got != want {
        // Not the usual spelling: decide by language, so that a mere change of notation is not an alarm.
        // The property is about which class the scalar is rewritten to, i.e. about the set the pattern denotes.
        if let Ok(h) = lang::parse(&out) {
            let spec = crate::spec::spec(&tcs, &cfg, k);
            if let Ok((None, _)) = lang::compare(&h, &spec, false) {
                got = want;
            }
        }
    }
    if got != want {
        let sig = format!("classification: grex={:?} regex-crate={:?}", got, want);
        crate::findings::report(ctx, viol("C09", "string", sig, &tcs, &cfg, &out, json!({"scalar": format!("U+{:04X}", c as u32), "expected_token": want, "actual_token": got})));
        return got.is_some();
    }
    if got.is_some() {
        // a converted pattern must still match the character it was derived from (real engine, cached per token)
        match lang::compile_real(&out) {
            Ok(re) => {
                if !re.is_match(&tcs[0]) {
                    ctx.run.violation(viol("C09", "lang", format!("converted-pattern-misses-scalar {:?}", got), &tcs, &cfg, &out, json!({"witness": tcs[0], "expected_in_language": true})));
                }
            }
            Err(e) => ctx.run.violation(viol("C09", "invalid", "invalid".into(), &tcs, &cfg, &out, json!({"error": e}))),
        }
    }
    got.is_some()
}

fn table_boundaries(k: &Classes) -> Vec<char> {
    // boundaries (+-1) of the regex crate's three tables; grex's own tables are covered because the
    // single-flag sweep below visits every scalar
    let mut v: Vec<u32> = vec![];
    for cls in [&k.d, &k.w, &k.s] {
        for r in cls.ranges() {
            for x in [r.start() as u32, r.end() as u32] {
                v.extend([x.saturating_sub(1), x, (x + 1).min(0x10FFFF)]);
            }
        }
    }
    v.sort_unstable();
    v.dedup();
    v.into_iter().filter_map(char::from_u32).collect()
}

pub fn run(ctx: &Ctx) {
    let thorough = ctx.run.is_thorough();
    *ctx.run.rule.lock().unwrap() = "every one of the 1,112,064 Unicode scalar values as a one-character test case x each of the 6 single conversion flags (both tiers, complete); all 64 flag subsets on every boundary +-1 of the regex crate's \\d \\w \\s tables (quick) or on every scalar (thorough); oracle: output is ^TOKEN$ for the token the documented precedence prescribes iff regex-syntax's class contains the scalar, and the compiled token pattern matches the scalar; a case is non-trivial if the flag set converts the scalar (counted exactly; all cases are distinct by construction: one per (scalar, flag set))".into();
    let k = &ctx.k;
    let all: Vec<char> = (0..=0x10FFFFu32).filter_map(char::from_u32).collect();
    let converted = AtomicU64::new(0);
    let singles = [D, ND, S, NS, W, NW];
    par_for(all.len(), |i| {
        for f in singles {
            ctx.run.eval();
            if check(ctx, all[i], f, k) {
                converted.fetch_add(1, Ordering::Relaxed);
            }
        }
    });
    ctx.run.space(json!({"universe": "all Unicode scalar values", "sets": all.len(), "settings": "6 single class flags", "cases": all.len() * 6}));
    let subsets: Vec<u32> = (0..64u32).filter(|s| s.count_ones() != 1).collect();
    let list = if thorough { all.clone() } else { table_boundaries(k) };
    par_for(list.len(), |i| {
        for s in &subsets {
            ctx.run.eval();
            if check(ctx, list[i], *s, k) {
                converted.fetch_add(1, Ordering::Relaxed);
            }
        }
    });
    ctx.run.space(json!({"universe": if thorough {"all Unicode scalar values"} else {"boundaries +-1 of \\d, \\w, \\s tables"}, "sets": list.len(), "settings": "the other 58 subsets of the 6 class flags", "cases": list.len() * subsets.len()}));
    // code points inside a multi-scalar grapheme cluster that grex keeps in one piece (Extend / SpacingMark /
    // Prepend characters that are neither marks nor "other"): each member is classified on its own
    {
        let joiners = ["\u{1f3fb}", "\u{1f3ff}", "\u{e33}", "\u{eb3}", "\u{ff9e}", "\u{ff9f}", "\u{d4e}", "\u{111c2}", "\u{11a3a}"];
        let partners = ["1", "a", " ", "-", "_", "\u{663}", "\u{e9}", "\u{3000}"];
        let mut cases: Vec<Vec<String>> = vec![];
        for j in joiners {
            for p in partners {
                cases.push(vec![format!("{p}{j}")]);
                cases.push(vec![format!("{j}{p}")]);
                cases.push(vec![format!("{p}{j}{p}")]);
            }
        }
        let cfgs: Vec<Cfg> = (1..64u32).map(|s| {
            let mut b = 0;
            for (i, f) in [D, ND, S, NS, W, NW].iter().enumerate() {
                if s & (1 << i) != 0 {
                    b |= f;
                }
            }
            Cfg::new(b)
        }).collect();
        par_for(cases.len(), |i| {
            for c in &cfgs {
                crate::core::check_spec_eq(ctx, "C09", &cases[i], c);
            }
        });
        ctx.run.space(json!({"universe": "cluster joiners {U+1F3FB, U+1F3FF, U+0E33, U+0EB3, U+FF9E, U+FF9F, U+0D4E, U+111C2, U+11A3A} next to {1, a, space, -, _, U+0663, e-acute, U+3000}: pj, jp, pjp as one test case", "sets": cases.len(), "settings": "all 63 non-empty class subsets; oracle = spec (per-code-point classes) by complete product exploration", "cases": cases.len() * cfgs.len()}));
    }
    // distinct_nontrivial: exact count of converted cases; each (scalar, flag set) is enumerated exactly once,
    // so the cases are distinct by construction and are counted rather than hashed
    let n = converted.load(Ordering::Relaxed);
    ctx.run.nontriv_counted.fetch_add(n, Ordering::Relaxed);
    ctx.run.set_extra("converted_cases", json!(n));
    ctx.run.sample(json!({"test_cases": ["٣"], "settings": "[d]", "output": Cfg::new(D).build(&["\u{663}".to_string()]).unwrap_or_default()}));
    ctx.run.sample(json!({"test_cases": ["_"], "settings": "[d,W,S]", "output": Cfg::new(D | NW | NS).build(&["_".to_string()]).unwrap_or_default()}));
}

pub fn replay_case(ctx: &Ctx, tcs: &[String], cfg: &Cfg) {
    if let Some(c) = tcs.first().and_then(|t| t.chars().next()) {
        check(ctx, c, cfg.bits, &ctx.k);
    }
}
