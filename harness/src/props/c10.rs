//! C10 build() is a deterministic function of the test-case set and the settings.
//! H-engine: explicit-state BFS over real builder objects (call histories).
//! N-engine: DFS over every choice of the two hash-iteration-order seams.
use crate::cfgs::*;
use crate::core::*;
use crate::ev::{hash_case, par_for};
use crate::space::*;
use grex::RegExpBuilder;
use serde_json::json;
use std::collections::{BTreeSet, HashMap, HashSet, VecDeque};
use std::sync::atomic::{AtomicU64, Ordering};
use std::sync::Mutex;

// ---------------------------------------------------------------- H-engine

#[derive(Clone, Copy, Debug, PartialEq)]
enum Op {
    Flag(u32),
    EscapeNoSurr,
    EscapeSurr,
    Anchors,
    MinRep(u32),
    MinLen(u32),
    Build,
    CloneOp,
}

fn op_name(op: &Op) -> String {
    match op {
        Op::Flag(b) => format!("set:{}", Cfg::new(*b).flag_names().join("")),
        Op::EscapeNoSurr => "escape(false)".into(),
        Op::EscapeSurr => "escape(true)".into(),
        Op::Anchors => "without_anchors".into(),
        Op::MinRep(n) => format!("min_repetitions({n})"),
        Op::MinLen(n) => format!("min_substring_length({n})"),
        Op::Build => "build".into(),
        Op::CloneOp => "clone".into(),
    }
}

/// Apply an operation to the real builder and to the reference model (a plain Cfg).
fn apply(op: &Op, b: &mut RegExpBuilder, m: &mut Cfg) -> Result<(), String> {
    match op {
        Op::Flag(bit) => {
            match *bit {
                D => b.with_conversion_of_digits(),
                ND => b.with_conversion_of_non_digits(),
                S => b.with_conversion_of_whitespace(),
                NS => b.with_conversion_of_non_whitespace(),
                W => b.with_conversion_of_words(),
                NW => b.with_conversion_of_non_words(),
                R => b.with_conversion_of_repetitions(),
                I => b.with_case_insensitive_matching(),
                G => b.with_capturing_groups(),
                X => b.with_verbose_mode(),
                NA => b.without_start_anchor(),
                NE => b.without_end_anchor(),
                C => b.with_syntax_highlighting(),
                _ => unreachable!(),
            };
            m.bits |= bit;
        }
        Op::EscapeNoSurr => {
            b.with_escaping_of_non_ascii_chars(false);
            m.bits = (m.bits | E) & !U;
        }
        Op::EscapeSurr => {
            b.with_escaping_of_non_ascii_chars(true);
            m.bits |= E | U;
        }
        Op::Anchors => {
            b.without_anchors();
            m.bits |= NA | NE;
        }
        Op::MinRep(n) => {
            b.with_minimum_repetitions(*n);
            m.minrep = *n;
        }
        Op::MinLen(n) => {
            b.with_minimum_substring_length(*n);
            m.minlen = *n;
        }
        Op::Build => {
            let mut bb = std::panic::AssertUnwindSafe(&mut *b);
            std::panic::catch_unwind(move || {
                bb.build();
            })
            .map_err(panic_msg)?;
        }
        Op::CloneOp => {
            *b = b.clone();
        }
    }
    Ok(())
}

/// Reference value: the canonical build computed on a brand-new thread, so that thread-local state left behind
/// by earlier builds of the exploring thread (caches, scratch buffers) cannot leak into the expectation.
fn fresh_thread_build(cfg: Cfg, tcs: &[String]) -> Result<String, String> {
    let t = tcs.to_vec();
    std::thread::spawn(move || cfg.build(&t)).join().unwrap_or_else(|_| Err("reference thread panicked".into()))
}

fn canonical(list: &[String]) -> Vec<String> {
    let mut v = list.to_vec();
    v.sort();
    v.dedup();
    v
}

struct HStats {
    states: u64,
    transitions: u64,
    probes: u64,
    outcomes: HashSet<String>,
}

/// BFS from one initial list. `seed_set` is the canonical set; the reference output of a state is a fresh
/// builder over the canonical list with the model's settings applied in canonical order.
fn bfs(ctx: &Ctx, initial: &[String], ops: &[Op], st: &mut HStats, max_states: usize, deep_prefix: usize, probe_prefix: usize) {
    let canon = canonical(initial);
    let mut refcache: HashMap<Cfg, Result<String, String>> = HashMap::new();
    // key = exact real state AND reference-model state: two histories are merged only if the object states are
    // identical and the model expects the same behaviour (a setter that silently does nothing would otherwise be
    // merged with the history that never called it)
    let mut seen: HashSet<((Vec<String>, String), Cfg)> = HashSet::new();
    let mut q: VecDeque<(RegExpBuilder, Cfg, Vec<String>, Vec<Op>)> = VecDeque::new();
    let b0 = RegExpBuilder::from(initial);
    seen.insert((grex::verif::builder_state(&b0), Cfg::new(0)));
    q.push_back((b0, Cfg::new(0), vec![], vec![]));
    while let Some((b, m, hist, hops)) = q.pop_front() {
        st.states += 1;
        ctx.run.eval();
        if st.states as usize > max_states {
            ctx.run.cap_hit(format!("H-engine state cap {max_states} reached for initial list {:?}", initial));
            return;
        }
        // invariant in this state
        let expect = refcache.entry(m).or_insert_with(|| fresh_thread_build(m, &canon)).clone();
        let observe = |mut bb: RegExpBuilder| -> Result<String, String> {
            std::panic::catch_unwind(std::panic::AssertUnwindSafe(move || bb.build())).map_err(panic_msg)
        };
        let o1 = observe(b.clone());
        let mut twice = b.clone();
        let o2 = std::panic::catch_unwind(std::panic::AssertUnwindSafe(|| {
            twice.build();
            twice.build()
        }))
        .map_err(panic_msg);
        let o3 = observe(b.clone().clone());
        if let Ok(s) = &expect {
            st.outcomes.insert(s.clone());
        }
        for (name, o) in [("build", &o1), ("build-twice", &o2), ("clone-build", &o3)] {
            if *o != expect {
                let sig = format!("history:{name}-differs-from-fresh-canonical flags={}", m.flag_names().join(","));
                ctx.run.violation(viol("C10", "determinism", sig, initial, &m, o.as_deref().unwrap_or("<panic>"), json!({"history": hist, "observation": name, "expected": expect.clone().unwrap_or_else(|e| format!("<panic {e}>")), "canonical_list": canon})));
                break;
            }
        }
        if ctx.run.want_sample() && hist.len() >= 3 {
            ctx.run.sample(json!({"initial_list": initial, "history": hist, "output": o1.clone().unwrap_or_default()}));
        }
        for op in ops {
            st.transitions += 1;
            let mut nb = b.clone();
            let mut nm = m;
            if apply(op, &mut nb, &mut nm).is_err() {
                continue; // a panicking build() in this state was already reported by the invariant
            }
            let key = (grex::verif::builder_state(&nb), nm);
            if seen.insert(key) {
                let mut h = hist.clone();
                h.push(op_name(op));
                let mut ho = hops.clone();
                ho.push(*op);
                q.push_back((nb, nm, h, ho));
            }
        }
        // Post-build probes. The dedup key above is (test-case vector, config): a builder that has been built is
        // merged with one that has not, which is right only if build() leaves nothing behind. That is the very
        // thing under test, so it is not assumed: from every state the history is REPLAYED on a brand-new builder,
        // build() is called, then every sequence of up to `post_depth` further operations, then build() again --
        // compared with the fresh canonical build for the settings the model expects.
        if hops.len() > probe_prefix {
            continue;
        }
        let post_depth = if hops.len() <= deep_prefix { 2 } else { 1 };
        let mut suffixes: Vec<Vec<Op>> = ops.iter().map(|o| vec![*o]).collect();
        if post_depth == 2 {
            for a in ops {
                for c in ops {
                    suffixes.push(vec![*a, *c]);
                }
            }
        }
        for suf in &suffixes {
            st.transitions += suf.len() as u64 + 1;
            st.probes += 1;
            let mut x = RegExpBuilder::from(initial);
            let mut mm = Cfg::new(0);
            let mut ok = true;
            for op in hops.iter().chain([Op::Build].iter()).chain(suf.iter()) {
                if apply(op, &mut x, &mut mm).is_err() {
                    ok = false;
                    break;
                }
            }
            if !ok {
                continue;
            }
            let expect = refcache.entry(mm).or_insert_with(|| fresh_thread_build(mm, &canon)).clone();
            let got = std::panic::catch_unwind(std::panic::AssertUnwindSafe(move || x.build())).map_err(panic_msg);
            if got != expect {
                let mut h = hist.clone();
                h.push("build".into());
                h.extend(suf.iter().map(op_name));
                let sig = format!("history:build-after-earlier-build-differs-from-fresh last_op={}", op_name(suf.last().unwrap()));
                ctx.run.violation(viol("C10", "determinism", sig, initial, &mm, got.as_deref().unwrap_or("<panic>"), json!({"history": h, "observation": "build", "expected": expect.clone().unwrap_or_else(|e| format!("<panic {e}>")), "canonical_list": canon})));
            }
        }
    }
}

fn permutations(v: &[String]) -> Vec<Vec<String>> {
    if v.len() <= 1 {
        return vec![v.to_vec()];
    }
    let mut out = vec![];
    for i in 0..v.len() {
        let mut rest = v.to_vec();
        let x = rest.remove(i);
        for mut p in permutations(&rest) {
            p.insert(0, x.clone());
            out.push(p);
        }
    }
    out
}

fn h_engine(ctx: &Ctx) {
    let thorough = ctx.run.is_thorough();
    let s = |v: &[&str]| v.iter().map(|x| x.to_string()).collect::<Vec<String>>();
    let seeds: Vec<Vec<String>> = if thorough {
        vec![s(&["b", "Ab", "abab"]), s(&["a1", "A1", "b"]), s(&["xx", "x", "Xx\u{1f4a9}\u{1f4a9}"]), s(&["", "a"]), s(&["ba", "bb", "B"]), s(&["a", "ab", "abb"])]
    } else {
        vec![s(&["b", "Ab", "abab\u{1f4a9}"]), s(&["a1", "A1", "b"]), s(&["a", "ab", "abb"]), s(&["aa", "Bb", "ab"])]
    };
    let ops: Vec<Op> = if thorough {
        let mut v: Vec<Op> = [D, S, W, NW, R, I, G, X, NA, NE].iter().map(|b| Op::Flag(*b)).collect();
        v.extend([Op::EscapeNoSurr, Op::EscapeSurr, Op::Anchors, Op::MinRep(1), Op::MinRep(2), Op::MinLen(1), Op::MinLen(2), Op::Build, Op::CloneOp]);
        v
    } else {
        let mut v: Vec<Op> = [R, I, D, W, X, G, NA, NE].iter().map(|b| Op::Flag(*b)).collect();
        v.extend([Op::EscapeSurr, Op::EscapeNoSurr, Op::Anchors, Op::MinRep(2), Op::Build, Op::CloneOp]);
        v
    };
    // initial states: every permutation of the seed, and the seed with one element duplicated at every position
    let mut initials: Vec<Vec<String>> = vec![];
    for seed in &seeds {
        let perms = permutations(seed);
        if thorough {
            initials.extend(perms.iter().take(2).cloned());
            let mut d = seed.clone();
            d.push(seed[0].clone());
            initials.push(d);
        } else {
            initials.push(perms[0].clone());
            initials.push(perms[perms.len() - 1].clone());
            let mut d = seed.clone();
            d.insert(1, seed[2].clone());
            initials.push(d);
        }
    }
    let tot = Mutex::new((0u64, 0u64, 0usize));
    let probes = AtomicU64::new(0);
    let cap = if thorough { 1_500_000 } else { 150_000 };
    par_for(initials.len(), |i| {
        let mut st = HStats { states: 0, transitions: 0, probes: 0, outcomes: HashSet::new() };
        bfs(ctx, &initials[i], &ops, &mut st, cap, if thorough { 2 } else { 1 }, if thorough { 6 } else { 3 });
        ctx.run.states.fetch_add(st.states, Ordering::Relaxed);
        ctx.run.transitions.fetch_add(st.transitions, Ordering::Relaxed);
        ctx.run.traces.fetch_add(st.states * 3 + st.probes, Ordering::Relaxed);
        probes.fetch_add(st.probes, Ordering::Relaxed);
        for k in 0..st.states {
            ctx.run.mark_nontrivial(hash_case(&initials[i], &Cfg::with(k as u32, (k >> 32) as u32, 7)));
        }
        let mut t = tot.lock().unwrap();
        t.0 += st.states;
        t.1 += st.transitions;
        t.2 += st.outcomes.len();
    });
    // threshold histories: a small complete BFS over the two thresholds (three values each), r, g, x, build and
    // clone on inputs with nested repetitions -- every order in which thresholds are raised and lowered between
    // builds on one thread
    let thr_ops: Vec<Op> = vec![Op::Flag(R), Op::Flag(G), Op::Flag(X), Op::MinRep(1), Op::MinRep(2), Op::MinRep(3), Op::MinLen(1), Op::MinLen(2), Op::MinLen(3), Op::Build, Op::CloneOp];
    let thr_inputs: Vec<Vec<String>> = vec![s(&["aabaabaab"]), s(&["xxyzxxyz", "q"]), s(&["ababab ababab", "abab"]), s(&["aaaa", "aaaaaa", "b"])];
    par_for(thr_inputs.len(), |i| {
        let mut st = HStats { states: 0, transitions: 0, probes: 0, outcomes: HashSet::new() };
        bfs(ctx, &thr_inputs[i], &thr_ops, &mut st, cap, 2, if thorough { 8 } else { 4 });
        ctx.run.states.fetch_add(st.states, Ordering::Relaxed);
        ctx.run.transitions.fetch_add(st.transitions, Ordering::Relaxed);
        ctx.run.traces.fetch_add(st.states * 3 + st.probes, Ordering::Relaxed);
        probes.fetch_add(st.probes, Ordering::Relaxed);
        for k in 0..st.states {
            ctx.run.mark_nontrivial(hash_case(&thr_inputs[i], &Cfg::with(k as u32, 77, 7)));
        }
        let mut t = tot.lock().unwrap();
        t.0 += st.states;
        t.1 += st.transitions;
        t.2 += st.outcomes.len();
    });
    let t = tot.lock().unwrap();
    ctx.run.space(json!({"engine": "H (threshold histories)", "initial_lists": thr_inputs.len(), "operations": thr_ops.iter().map(op_name).collect::<Vec<_>>()}));
    ctx.run.space(json!({"engine": "H (builder call histories, BFS, exact-state dedup on (owned test-case vector, config))", "initial_lists": initials.len(), "operations": ops.iter().map(op_name).collect::<Vec<_>>(), "states": t.0, "transitions": t.1, "distinct_reference_outputs_summed_over_initial_lists": t.2, "observations_per_state": "build, build-twice, clone-build vs fresh canonical build",
        "post_build_probes": probes.load(Ordering::Relaxed), "post_build_probe_rule": "from every BFS state whose history has at most 3 (quick) / 6 (thorough) operations (4 / 8 in the threshold engine) the history is replayed on a new builder, then build(), then every sequence of 1 (2 when the state's history has at most 1 (quick) / 2 (thorough) operations; always 2 in the threshold engine) further operations, then build() -- because the dedup key cannot see state that build() itself might leave behind"}));
}

// ---------------------------------------------------------------- orders

fn orders(ctx: &Ctx) {
    let thorough = ctx.run.is_thorough();
    let mut unis = vec![Universe::new("U_ab3{a,b}", &["a", "b"], 3, if thorough { 4 } else { 3 }, true)];
    unis.push(Universe::new("U_case{a,A,b,B}", &["a", "A", "b", "B"], 2, 3, true));
    unis.push(Universe::new("U_mb{a,e9,b,fc}", &["a", "\u{e9}", "b", "\u{fc}"], 2, 3, false));
    // letters whose case pair std knows and the regex crate's fold table does not (Unicode 16 additions), next to
    // ordinary case pairs: what one list element decides about the shared lower-cased form must not depend on its place
    unis.push(Universe::new("U_fold16{U+0264,U+A7CB,U+019B,U+A7DC,A,a}", &["\u{264}", "\u{a7cb}", "\u{19b}", "\u{a7dc}", "A", "a"], 2, 2, false));
    if thorough {
        unis.push(Universe::new("U_adv(A_case)", A_CASE, 1, 4, true));
    }
    // the anchor-free paths (self-check, fallbacks) look at the list itself, so they are part of the slice
    let cfgs: Vec<Cfg> = [0, R, I, R | I, D, NE, R | NE, R | NA | NE, I | NA | NE, W | R | NE].iter().map(|b| Cfg::new(*b)).collect();
    let execs = AtomicU64::new(0);
    for u in &unis {
        par_for(u.len(), |i| {
            let t = u.set(i);
            let canon = canonical(&t);
            for cfg in &cfgs {
                ctx.run.mark_nontrivial(hash_case(&t, cfg));
                let expect = fresh_thread_build(*cfg, &canon);
                let mut variants = permutations(&t);
                for j in 0..t.len() {
                    for pos in 0..=t.len() {
                        let mut d = t.clone();
                        d.insert(pos, t[j].clone());
                        variants.push(d);
                    }
                }
                // a second build() on the same builder (its list was normalised in place by the first)
                {
                    ctx.run.eval();
                    let c = *cfg;
                    let tt = t.clone();
                    let twice = std::panic::catch_unwind(move || {
                        let mut b = c.builder(&tt);
                        let first = b.build();
                        (first, b.build())
                    });
                    if let Ok((first, second)) = twice {
                        if first != second || Ok(first.clone()) != expect {
                            ctx.run.violation(viol("C10", "determinism", format!("second-build-differs flags={}", cfg.flag_names().join(",")), &t, cfg, &second, json!({"first_build": first, "expected": expect.clone().unwrap_or_default()})));
                        }
                    }
                }
                for v in &variants {
                    ctx.run.eval();
                    execs.fetch_add(1, Ordering::Relaxed);
                    let o = cfg.build(v);
                    if o != expect {
                        ctx.run.violation(viol("C10", "determinism", format!("order-or-duplicate-sensitive flags={}", cfg.flag_names().join(",")), v, cfg, o.as_deref().unwrap_or("<panic>"), json!({"expected": expect.clone().unwrap_or_default(), "canonical_list": canon})));
                        break;
                    }
                }
            }
        });
        ctx.run.space(json!({"engine": "orders: every permutation and every single duplication at every position", "universe": u.name, "sets": u.len(), "settings": "{}, r, i, r+i, d, ne, r+ne, r+na+ne, i+na+ne, w+r+ne"}));
    }
    ctx.run.set_extra("order_variant_builds", json!(execs.load(Ordering::Relaxed)));
}

// ---------------------------------------------------------------- N-engine

pub struct NResult {
    pub execs: u64,
    pub outs: BTreeSet<String>,
    pub max_points: usize,
    pub bound: Option<usize>,
    pub capped: bool,
}

/// Deviation-bounded DFS over the seams (scheme of the Go idiom in the brief): run with a choice prefix,
/// default (0) afterwards, then branch on every later choice point. `bound` = max non-default choices.
pub fn explore(build: &dyn Fn() -> Result<String, String>, bound: Option<usize>, cap: u64) -> NResult {
    let mut stack: Vec<Vec<usize>> = vec![vec![]];
    let mut r = NResult { execs: 0, outs: BTreeSet::new(), max_points: 0, bound, capped: false };
    while let Some(prefix) = stack.pop() {
        if r.execs >= cap {
            r.capped = true;
            break;
        }
        grex::verif::install(prefix.clone());
        let out = build();
        let taken = grex::verif::uninstall();
        // replay discipline: the prefix must have been consumed exactly as recorded
        assert!(taken.len() >= prefix.len() && taken.iter().zip(&prefix).all(|(t, p)| t.0 == *p), "verif: divergence while replaying a choice prefix");
        r.execs += 1;
        r.max_points = r.max_points.max(taken.len());
        r.outs.insert(out.unwrap_or_else(|e| format!("<panic {e}>")));
        let dev = prefix.iter().filter(|c| **c != 0).count();
        if bound.map_or(false, |b| dev + 1 > b) {
            continue;
        }
        for i in prefix.len()..taken.len() {
            for alt in 1..taken[i].1 {
                let mut p: Vec<usize> = taken[..i].iter().map(|x| x.0).collect();
                p.push(alt);
                stack.push(p);
            }
        }
    }
    r
}

fn n_engine(ctx: &Ctx) {
    let thorough = ctx.run.is_thorough();
    let mut jobs: Vec<(Universe, Vec<Cfg>)> = vec![];
    let c = |b: u32| Cfg::new(b);
    if !thorough {
        jobs.push((Universe::new("U_ab3{a,b}", &["a", "b"], 3, 0, false), vec![c(0)]));
        jobs.push((Universe::new("U_ab3{a,b}", &["a", "b"], 3, 3, false), vec![c(R)]));
        jobs.push((crate::props::c05::u_rep_single(&["a", "b"], 6), vec![c(R), Cfg::with(R, 2, 1)]));
        jobs.push((Universe::new("U_adv(A_cls)", A_CLS, 2, 3, false), vec![c(D), c(W | D), c(NW | S)]));
        jobs.push((u_prefix_suffix(), vec![c(D), c(W), c(W | D), c(NW | D), c(D | R)]));
    } else {
        jobs.push((u_prefix_suffix(), vec![c(D), c(W), c(W | D), c(NW | D), c(D | R), c(W | I), c(NS | D)]));
        jobs.push((Universe::new("U_ab3{a,b}", &["a", "b"], 3, 0, true), vec![c(0), c(R)]));
        jobs.push((Universe::new("U_abc2{a,b,c}", &["a", "b", "c"], 2, 0, true), vec![c(0), c(R), c(I)]));
        jobs.push((crate::props::c05::u_rep_single(&["a", "b"], 8), vec![c(R), Cfg::with(R, 2, 1), Cfg::with(R, 1, 2)]));
        jobs.push((Universe::new("U_adv(A_cls)", A_CLS, 2, 3, false), vec![c(D), c(W | D), c(NW | S), c(D | R)]));
        jobs.push((Universe::new("U_adv(A_cls)", A_CLS, 3, 2, false), vec![c(D), c(D | R)]));
    }
    let execs = AtomicU64::new(0);
    let multi = AtomicU64::new(0);
    let cases = AtomicU64::new(0);
    let by_bound = Mutex::new([0u64; 4]); // full, bound2, bound1, capped-at-bound1
    let maxp = AtomicU64::new(0);
    let cap_full: u64 = if thorough { 20_000 } else { 3_000 };
    let cap_b2: u64 = if thorough { 40_000 } else { 6_000 };
    for (u, cfgs) in &jobs {
        par_for(u.len(), |i| {
            let t = u.set(i);
            for cfg in cfgs {
                ctx.run.eval();
                cases.fetch_add(1, Ordering::Relaxed);
                let b = || cfg.build(&t);
                // production behaviour (no chooser): fresh RandomState per map, 8 builds
                let plain: BTreeSet<String> = (0..8).map(|_| b().unwrap_or_else(|e| format!("<panic {e}>"))).collect();
                let mut r = explore(&b, None, cap_full);
                let mut slot = 0;
                if r.capped {
                    r = explore(&b, Some(2), cap_b2);
                    slot = 1;
                    if r.capped {
                        r = explore(&b, Some(1), cap_b2);
                        slot = 2;
                        if r.capped {
                            slot = 3;
                        }
                    }
                }
                by_bound.lock().unwrap()[slot] += 1;
                execs.fetch_add(r.execs + 8, Ordering::Relaxed);
                ctx.run.states.fetch_add(r.execs, Ordering::Relaxed);
                ctx.run.transitions.fetch_add(r.execs * r.max_points as u64, Ordering::Relaxed);
                ctx.run.traces.fetch_add(r.execs, Ordering::Relaxed);
                maxp.fetch_max(r.max_points as u64, Ordering::Relaxed);
                if r.execs > 1 {
                    multi.fetch_add(1, Ordering::Relaxed);
                    ctx.run.mark_nontrivial(hash_case(&t, cfg));
                }
                let mut all = r.outs.clone();
                all.extend(plain.iter().cloned());
                if all.len() > 1 {
                    ctx.run.violation(viol("C10", "determinism", format!("hash-order-sensitive flags={}", cfg.flag_names().join(",")), &t, cfg, all.iter().next().unwrap(), json!({"distinct_outputs": all.iter().collect::<Vec<_>>(), "executions": r.execs, "choice_points": r.max_points})));
                }
            }
        });
        ctx.run.space(json!({"engine": "N (hash-iteration-order seam, DFS over choices; + 8 un-seamed builds)", "universe": u.name, "sets": u.len(), "settings": cfgs.iter().map(|c| c.name()).collect::<Vec<_>>()}));
    }
    let bb = by_bound.lock().unwrap();
    if bb[1] + bb[2] + bb[3] > 0 {
        ctx.run.cap_hit(format!("N-engine: {} cases explored with all choice combinations; {} cases exceeded {} executions and were explored completely up to 2 non-default choices; {} up to 1; {} hit the cap even at 1", bb[0], bb[1], cap_full, bb[2], bb[3]));
    }
    ctx.run.set_extra("n_engine", json!({"cases": cases.load(Ordering::Relaxed), "executions": execs.load(Ordering::Relaxed), "cases_with_more_than_one_execution": multi.load(Ordering::Relaxed),
        "max_choice_points": maxp.load(Ordering::Relaxed), "cases_fully_explored": bb[0], "cases_deviation_bound_2": bb[1], "cases_deviation_bound_1": bb[2], "cases_capped": bb[3]}));
}

// ---------------------------------------------------------------- lazy tables, threads

/// Order-independent digest of the outputs of a fixed family of builds, evaluated in one of several orders
/// (separate processes = fresh hash seeds; different orders = different histories of process-wide state).
fn process_digest(order: usize) -> (u64, usize) {
    let unis = [Universe::new("U_adv(A_cls)", A_CLS, 2, 2, false), Universe::new("U_ab3{a,b}", &["a", "b"], 3, 3, false), crate::props::c05::u_rep_single(&["a", "b"], 6)];
    // every one of the 15 flags occurs in some member of the family
    let cfgs = [Cfg::new(0), Cfg::new(R), Cfg::new(D), Cfg::new(W | D | R), Cfg::new(I | NE), Cfg::new(R | G), Cfg::new(R | X), Cfg::new(R | G | X | E), Cfg::new(C), Cfg::new(C | X | R), Cfg::new(E | U), Cfg::new(S | NS), Cfg::new(NW | ND | NA)];
    let mut cases: Vec<(usize, usize, usize)> = vec![];
    for (ui, u) in unis.iter().enumerate() {
        for i in 0..u.len() {
            for ci in 0..cfgs.len() {
                cases.push((ui, i, ci));
            }
        }
    }
    match order % 4 {
        1 => cases.reverse(),
        2 => cases.sort_by_key(|c| (c.2, c.0, c.1)),
        3 => cases.sort_by_key(|c| (std::cmp::Reverse(c.2), c.1, c.0)),
        _ => {}
    }
    let mut sum: u64 = 0;
    for (ui, i, ci) in &cases {
        let o = cfgs[*ci].build(&unis[*ui].set(*i)).unwrap_or_else(|e| format!("<panic {e}>"));
        let mut h: u64 = 0xcbf29ce484222325 ^ ((*ui as u64) << 48) ^ ((*i as u64) << 8) ^ (*ci as u64);
        for b in o.bytes() {
            h = (h ^ b as u64).wrapping_mul(0x100000001b3);
        }
        sum = sum.wrapping_add(h);
    }
    (sum, cases.len())
}

const VARIANTS: [&str; 4] = ["empty environment", "enlarged environment (NO_COLOR, LANG, LC_ALL, TZ, COLUMNS, ...) + extra argument", "cwd=/, HOME/TMPDIR unusable, extra arguments", "taskset -c 0"];

fn process_seeds(ctx: &Ctx) {
    let exe = std::env::current_exe().expect("current_exe");
    let (own, n) = fresh_thread(|| process_digest(0));
    let procs = if ctx.run.is_thorough() { 16 } else { 4 };
    let results = Mutex::new(BTreeSet::new());
    let by_child: Mutex<Vec<(usize, String)>> = Mutex::new(vec![]);
    // every child differs from its siblings in something the result must not depend on: evaluation order, hash
    // seeds, pid, start time and address-space layout in any case; and, by index, the environment (emptied, or
    // enlarged by unrelated and by grex/locale/colour-looking variables), extra trailing program arguments, the
    // working directory and the set of CPUs the process may run on
    par_for(procs, |k| {
        let mut cmd = std::process::Command::new(&exe);
        let pad = "x".repeat(37 * (k + 1));
        cmd.args(["C10-child", "digest", &k.to_string()]);
        match k % 4 {
            0 => {
                cmd.env_clear();
            }
            1 => {
                cmd.env("GREX_SEED", &pad).env("NO_COLOR", "1").env("LANG", "tr_TR.UTF-8").env("LC_ALL", "C").env("TZ", "Pacific/Kiritimati").env("RUST_LOG", "trace").env("COLUMNS", "7").arg(&pad);
            }
            2 => {
                cmd.current_dir("/").env("HOME", "/nonexistent").env("TMPDIR", "/nonexistent").arg("--").arg(&pad).arg(&pad);
            }
            _ => {
                // restrict the CPU set when `taskset` exists (available_parallelism follows the affinity mask)
                if std::path::Path::new("/usr/bin/taskset").exists() {
                    let mut t = std::process::Command::new("/usr/bin/taskset");
                    t.args(["-c", "0"]).arg(&exe).args(["C10-child", "digest", &k.to_string()]);
                    cmd = t;
                }
            }
        }
        match cmd.output() {
        Ok(o) if o.status.success() => {
            let d = String::from_utf8_lossy(&o.stdout).trim().to_string();
            by_child.lock().unwrap().push((k, d.clone()));
            results.lock().unwrap().insert(d);
        }
        Ok(o) => ctx.run.machinery_error(format!("digest child failed: {:?}", o.status)),
        Err(e) => ctx.run.machinery_error(format!("cannot spawn digest child: {e}")),
        }
    });
    let mut seen = results.into_inner().unwrap();
    seen.insert(format!("{own:016x}"));
    ctx.run.evals.fetch_add((n * (procs + 1)) as u64, Ordering::Relaxed);
    if seen.len() > 1 {
        ctx.run.violation(viol("C10", "determinism", "process- or history-sensitive (fresh hash seeds, different evaluation orders)".into(), &[], &Cfg::new(0), "", json!({"distinct_digests": seen.iter().collect::<Vec<_>>(), "builds_per_process": n, "this_process_fresh_thread": format!("{own:016x}"),
            "children": by_child.lock().unwrap().iter().map(|(k, d)| json!({"child": k, "evaluation_order": k % 4, "variant": VARIANTS[k % 4], "digest": d})).collect::<Vec<_>>()})));
    }
    ctx.run.space(json!({"engine": "separate processes (fresh per-process hash seeds), each evaluating the same family of builds in a different order (natural, reversed, settings-major, reverse-settings-major): order-independent digests compared across processes and with a fresh thread of this process; the children also differ in environment (emptied / enlarged with locale-, colour- and grex-looking variables), trailing program arguments, working directory, HOME/TMPDIR and CPU set (taskset -c 0)", "processes": procs + 1, "builds_per_process": n, "distinct_digests": seen.len()}));
}

fn fresh_thread<T: Send + 'static, F: FnOnce() -> T + Send + 'static>(f: F) -> T {
    std::thread::spawn(f).join().expect("helper thread")
}

pub fn child_lazy(args: &[String]) -> i32 {
    if args[0] == "digest" {
        let order: usize = args.get(1).and_then(|x| x.parse().ok()).unwrap_or(0);
        println!("{:016x}", process_digest(order).0);
        return 0;
    }
    // C10-child <perm as digits of 0,1,2>: first-use order of the three lazily built range tables
    let probes: [(u32, &str); 3] = [(D, "\u{663}"), (W, "\u{e9}"), (S, "\u{2003}")];
    let mut outs = vec![String::new(); 3];
    for ch in args[0].chars() {
        let i = ch.to_digit(10).unwrap() as usize;
        outs[i] = Cfg::new(probes[i].0).build(&[probes[i].1.to_string()]).unwrap_or_else(|e| format!("<panic {e}>"));
    }
    let all = Cfg::new(D | W | S | NW).build(&["a\u{663} -".to_string(), "\u{2003}_".to_string()]).unwrap_or_else(|e| format!("<panic {e}>"));
    println!("{}", json!({"outs": outs, "all": all}));
    0
}

fn lazy_tables(ctx: &Ctx) {
    let exe = std::env::current_exe().expect("current_exe");
    let perms = ["012", "021", "102", "120", "201", "210"];
    let mut seen = BTreeSet::new();
    for p in perms {
        ctx.run.eval();
        match std::process::Command::new(&exe).args(["C10-child", p]).output() {
            Ok(o) if o.status.success() => {
                seen.insert(String::from_utf8_lossy(&o.stdout).trim().to_string());
            }
            Ok(o) => ctx.run.machinery_error(format!("lazy-table child failed: {:?}", o.status)),
            Err(e) => ctx.run.machinery_error(format!("cannot spawn lazy-table child: {e}")),
        }
    }
    if seen.len() > 1 {
        ctx.run.violation(viol("C10", "determinism", "lazy-table-first-use-order-sensitive".into(), &[], &Cfg::new(D | W | S), "", json!({"distinct_process_outputs": seen.iter().collect::<Vec<_>>()})));
    }
    ctx.run.space(json!({"engine": "lazy tables: all 3! first-use orders of the three lazily initialised range tables, each in a fresh process (fresh hash seeds too)", "processes": 6, "distinct_outputs": seen.len()}));
}

fn threads_sampling(ctx: &Ctx) {
    let u = if ctx.run.is_thorough() { Universe::new("U_ab3{a,b}", &["a", "b"], 3, 2, true) } else { u_prefix_suffix() };
    let cfgs = [Cfg::new(0), Cfg::new(R), Cfg::new(D | I)];
    let expect: Vec<Vec<Result<String, String>>> = (0..u.len()).map(|i| cfgs.iter().map(|c| c.build(&u.set(i))).collect()).collect();
    let bad = AtomicU64::new(0);
    std::thread::scope(|sc| {
        for _ in 0..16 {
            sc.spawn(|| {
                for i in 0..u.len() {
                    for (j, c) in cfgs.iter().enumerate() {
                        if c.build(&u.set(i)) != expect[i][j] {
                            bad.fetch_add(1, Ordering::Relaxed);
                        }
                    }
                }
            });
        }
    });
    if bad.load(Ordering::Relaxed) > 0 {
        ctx.run.violation(viol("C10", "determinism", "thread-sensitive".into(), &[], &Cfg::new(0), "", json!({"differing_builds": bad.load(Ordering::Relaxed)})));
    }
    ctx.run.space(json!({"engine": "16 free-running threads, same builds, compared with the sequential result -- SAMPLING of OS schedules, labelled as such; not what the claim rests on (build() contains no synchronisation operation a controlled scheduler could intercept)", "builds_per_thread": u.len() * 3}));
}

/// I-engine: interference between DIFFERENT builders on one thread. For a pool of (set, settings) cases whose sets
/// overlap and whose settings differ, every ordered pair (A, B) -- and, for a sub-pool, every ordered triple -- is
/// executed on a brand-new thread: build A (, build A'), then build B; B's result must equal B's result on a thread
/// that has built nothing else. Whatever a build leaves behind in thread-local or process-wide state (a memo keyed
/// on too little, a scratch buffer, a lazily filled table) shows as a difference for some pair.
fn interference(ctx: &Ctx) {
    let thorough = ctx.run.is_thorough();
    let s = |v: &[&str]| v.iter().map(|x| x.to_string()).collect::<Vec<String>>();
    let words = if thorough { s(&["b", "ab", "abab", "xb", "B", "test", "contest", "1b"]) } else { s(&["b", "ab", "abab", "xb", "B"]) };
    let mut sets: Vec<Vec<String>> = vec![];
    for i in 0..words.len() {
        sets.push(vec![words[i].clone()]);
        for j in i + 1..words.len() {
            sets.push(vec![words[i].clone(), words[j].clone()]);
        }
    }
    sets.push(words.iter().take(4).cloned().collect());
    let cfg_bits: Vec<u32> = if thorough { vec![0, G, X, C, R, R | G, R | X, I, E, D, W | R, NA | NE] } else { vec![0, G, X, C, R | G, R | X, I, E] };
    let cfgs: Vec<Cfg> = cfg_bits.iter().map(|b| Cfg::new(*b)).collect();
    let pool: Vec<(Vec<String>, Cfg)> = sets.iter().flat_map(|t| cfgs.iter().map(move |c| (t.clone(), *c))).collect();
    // reference: each case alone on its own new thread
    let reference: Vec<Result<String, String>> = {
        let out = Mutex::new(vec![None; pool.len()]);
        par_for(pool.len(), |i| {
            let r = fresh_thread_build(pool[i].1, &pool[i].0);
            out.lock().unwrap()[i] = Some(r);
        });
        out.into_inner().unwrap().into_iter().map(|x| x.unwrap()).collect()
    };
    let pairs = AtomicU64::new(0);
    par_for(pool.len(), |a| {
        // one new thread per first element A: A is built, then B, for every B -- each (A, B) on its own thread
        for b in 0..pool.len() {
            let (pa, pb) = (pool[a].clone(), pool[b].clone());
            let got = std::thread::spawn(move || {
                let _ = pa.1.build(&pa.0);
                pb.1.build(&pb.0)
            })
            .join()
            .unwrap_or_else(|_| Err("thread panicked".into()));
            pairs.fetch_add(1, Ordering::Relaxed);
            ctx.run.eval();
            if got != reference[b] {
                let sig = format!("interference:build-after-a-different-builder-differs earlier_flags={} flags={}", pool[a].1.flag_names().join(","), pool[b].1.flag_names().join(","));
                ctx.run.violation(viol("C10", "determinism", sig, &pool[b].0, &pool[b].1, got.as_deref().unwrap_or("<panic>"),
                    json!({"earlier_build_on_the_same_thread": {"test_cases": pool[a].0, "settings": pool[a].1.name()}, "expected": reference[b].clone().unwrap_or_else(|e| format!("<panic {e}>"))})));
            }
        }
        ctx.run.mark_nontrivial(hash_case(&pool[a].0, &pool[a].1) ^ 0x1e7e);
    });
    // triples on a sub-pool: two earlier builds
    let sub: Vec<usize> = (0..pool.len()).filter(|i| pool[*i].0.len() <= 2 && [0, G, X, R | G].contains(&pool[*i].1.bits) && pool[*i].0.iter().all(|w| ["b", "ab", "abab"].contains(&w.as_str()))).collect();
    let triples = AtomicU64::new(0);
    par_for(sub.len() * sub.len(), |k| {
        let (a, a2) = (sub[k / sub.len()], sub[k % sub.len()]);
        for &b in &sub {
            let (pa, pa2, pb) = (pool[a].clone(), pool[a2].clone(), pool[b].clone());
            let got = std::thread::spawn(move || {
                let _ = pa.1.build(&pa.0);
                let _ = pa2.1.build(&pa2.0);
                pb.1.build(&pb.0)
            })
            .join()
            .unwrap_or_else(|_| Err("thread panicked".into()));
            triples.fetch_add(1, Ordering::Relaxed);
            ctx.run.eval();
            if got != reference[b] {
                let sig = format!("interference:build-after-two-different-builders-differs flags={}", pool[b].1.flag_names().join(","));
                ctx.run.violation(viol("C10", "determinism", sig, &pool[b].0, &pool[b].1, got.as_deref().unwrap_or("<panic>"),
                    json!({"earlier_builds_on_the_same_thread": [{"test_cases": pool[a].0, "settings": pool[a].1.name()}, {"test_cases": pool[a2].0, "settings": pool[a2].1.name()}], "expected": reference[b].clone().unwrap_or_else(|e| format!("<panic {e}>"))})));
            }
        }
    });
    ctx.run.traces.fetch_add(pairs.load(Ordering::Relaxed) + triples.load(Ordering::Relaxed), Ordering::Relaxed);
    ctx.run.space(json!({"engine": "I (interference between different builders on one thread): every ordered pair of the pool, every ordered triple of a sub-pool, each on a brand-new thread; the last build compared with the same build on a thread that built nothing else",
        "pool": pool.len(), "sets": sets.len(), "settings": cfgs.iter().map(|c| c.name()).collect::<Vec<_>>(), "pairs": pairs.load(Ordering::Relaxed), "triple_sub_pool": sub.len(), "triples": triples.load(Ordering::Relaxed)}));
}

/// Sets with a hundred and more test cases: the same set built concurrently on 8 threads, in the given, reversed and
/// rotated list order. Work that is split by the number of test cases (chunks, workers, batches) must not show.
fn many_test_cases(ctx: &Ctx) {
    let u = u_many(150);
    let picked: Vec<usize> = (0..u.len()).filter(|i| [64usize, 99, 100, 101, 128, 150].contains(&u.sets[*i].len())).collect();
    let cfgs = [Cfg::new(0), Cfg::new(R | E)];
    for &i in &picked {
        let t = u.set(i);
        for c in &cfgs {
            let expect = fresh_thread_build(*c, &canonical(&t));
            let mut lists = vec![t.clone()];
            let mut r = t.clone();
            r.reverse();
            lists.push(r);
            let mut rot = t.clone();
            rot.rotate_left(t.len() / 3);
            lists.push(rot);
            let outs: Vec<Result<String, String>> = std::thread::scope(|sc| {
                let hs: Vec<_> = (0..8).map(|k| {
                    let l = lists[k % lists.len()].clone();
                    sc.spawn(move || c.build(&l))
                }).collect();
                hs.into_iter().map(|h| h.join().unwrap_or_else(|_| Err("thread panicked".into()))).collect()
            });
            ctx.run.evals.fetch_add(8, Ordering::Relaxed);
            ctx.run.mark_nontrivial(hash_case(&t, c));
            if let Some(bad) = outs.iter().find(|o| **o != expect) {
                ctx.run.violation(viol("C10", "determinism", format!("many-test-cases:concurrent-or-reordered-build-differs n={}", t.len()), &t.iter().take(6).cloned().collect::<Vec<_>>(), c, bad.as_deref().unwrap_or("<panic>"),
                    json!({"test_cases": t.len(), "first_six_shown": true, "expected_prefix": expect.as_deref().unwrap_or("").chars().take(200).collect::<String>(), "distinct_outputs": outs.iter().collect::<BTreeSet<_>>().len()})));
            }
        }
    }
    ctx.run.space(json!({"engine": "8 concurrent builds per case in three list orders (SAMPLING of schedules, labelled as such) compared with a fresh sequential build", "universe": u.name, "sets_with_64_99_100_101_128_150_test_cases": picked.len(), "settings": "{}, r+e"}));
}

/// Long test cases with thousands of repeated-substring candidates: 24 builds each on 24 brand-new threads (fresh
/// hash seeds per map instance and per thread) must agree. This SAMPLES hash seeds -- the seam explorer cannot
/// enumerate the orders of a map with two thousand entries -- and is labelled so.
fn many_candidates(ctx: &Ctx) {
    let u = u_double_blocks();
    let cfgs = [Cfg::new(R), Cfg::with(R, 1, 2)];
    for i in 0..u.len() {
        let t = u.set(i);
        for c in &cfgs {
            let outs: Vec<Result<String, String>> = (0..24).map(|_| fresh_thread_build(*c, &t)).collect();
            ctx.run.evals.fetch_add(24, Ordering::Relaxed);
            ctx.run.mark_nontrivial(hash_case(&t, c));
            let distinct: BTreeSet<&Result<String, String>> = outs.iter().collect();
            if distinct.len() > 1 {
                let v: Vec<String> = distinct.iter().map(|o| o.as_ref().map(|s| s.clone()).unwrap_or_else(|e| format!("<panic {e}>"))).collect();
                ctx.run.violation(viol("C10", "determinism", "hash-seed-sensitive (long test case, thousands of repetition candidates)".into(), &t, c, &v[0], json!({"distinct_outputs": v.len(), "outputs": v.iter().take(3).collect::<Vec<_>>(), "builds": 24})));
            }
        }
    }
    ctx.run.space(json!({"engine": "24 builds on 24 new threads per case (SAMPLING of hash seeds, labelled as such)", "universe": u.name, "sets": u.len(), "settings": "r, r(1,2)"}));
}

pub fn run(ctx: &Ctx) {
    *ctx.run.rule.lock().unwrap() = "H: BFS over real RegExpBuilder objects from permuted/duplicated initial lists, one transition per setter/build/clone, states merged only when (owned test-case vector, config) are identical, invariant (build, build twice, clone-build == fresh canonical build under the reference-model settings) evaluated in every state; orders: every permutation and single duplication of every set; N: DFS over every choice at the hash-order seam (iteration order of the repetition map in cluster.rs; the representative-choice seam in recreate_graph was retired together with the nondeterminism it exposed, fix 5b265b8), all combinations when <= cap executions else all with <= 2 (then 1) non-default choices, plus 8 un-seamed builds per case (fresh RandomState per container: this part samples hash seeds and is what catches iteration over a container that has no seam); separate processes compared by digest; lazy tables: all 3! first-use orders in fresh processes; a case is non-trivial when it has more than one execution / a history state; distinct by hash".into();
    ctx.run.assumptions.lock().unwrap().push("after fix 5b265b8 the hash seed can influence build() only through the iteration order of the repetition map (seamed, explored exhaustively); every other HashSet/HashMap use in dfa.rs and cluster.rs is membership, insertion, min() or set algebra (reviewed) -- cross-checked by 8 un-seamed builds per case with fresh RandomState and by separate processes".into());
    h_engine(ctx);
    interference(ctx);
    many_candidates(ctx);
    many_test_cases(ctx);
    orders(ctx);
    n_engine(ctx);
    lazy_tables(ctx);
    process_seeds(ctx);
    threads_sampling(ctx);
}

/// Single-case replay: orders/duplicates and hash-order sensitivity of the recorded list and settings.
pub fn replay_case(ctx: &Ctx, v: &crate::ev::Violation) {
    let canon = canonical(&v.tcs);
    let expect = v.cfg.build(&canon);
    let mut variants = permutations(&canon);
    variants.push(v.tcs.clone());
    for var in &variants {
        let o = v.cfg.build(var);
        if o != expect {
            ctx.run.violation(viol("C10", "determinism", "order-or-duplicate-sensitive".into(), var, &v.cfg, o.as_deref().unwrap_or("<panic>"), json!({"expected": expect.clone().unwrap_or_default()})));
            return;
        }
    }
    let b = || v.cfg.build(&v.tcs);
    let r = explore(&b, Some(2), 20_000);
    if r.outs.len() > 1 {
        ctx.run.violation(viol("C10", "determinism", "hash-order-sensitive".into(), &v.tcs, &v.cfg, "", json!({"distinct_outputs": r.outs.iter().collect::<Vec<_>>()})));
    }
    if let Some(h) = v.detail.get("history").and_then(|h| h.as_array()) {
        println!("  recorded history: {:?} (histories are replayed by `check C10 quick`)", h);
    }
}
