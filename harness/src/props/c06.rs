//! C06 Verbose mode, capturing groups and escaping are presentation only.
use crate::cfgs::*;
use crate::core::*;
use crate::space::*;
use crate::sweep::*;
use regex_syntax::ast::{self, Ast};
use serde_json::json;

fn groups(a: &Ast, out: &mut Vec<&'static str>) {
    match a {
        Ast::Group(g) => {
            out.push(match &g.kind {
                ast::GroupKind::CaptureIndex(_) => "capture",
                ast::GroupKind::CaptureName { .. } => "named",
                ast::GroupKind::NonCapturing(f) => {
                    if f.items.is_empty() {
                        "noncapturing"
                    } else {
                        "flag-group"
                    }
                }
            });
            groups(&g.ast, out)
        }
        Ast::Repetition(r) => groups(&r.ast, out),
        Ast::Alternation(x) => x.asts.iter().for_each(|y| groups(y, out)),
        Ast::Concat(x) => x.asts.iter().for_each(|y| groups(y, out)),
        _ => {}
    }
}

/// Structural part: flag prefix and group kinds, read off the regex-syntax AST of the output.
pub fn structure(ctx: &Ctx, tcs: &[String], cfg: &Cfg, out: &str) {
    let plain = match prep(out, cfg) {
        Ok(p) => p,
        Err(_) => return,
    };
    let want_prefix = match (cfg.has(I), cfg.has(X)) {
        (true, true) => "(?ix)",
        (false, true) => "(?x)",
        (true, false) => "(?i)",
        (false, false) => "",
    };
    let has_x_prefix = plain.starts_with("(?x)") || plain.starts_with("(?ix)");
    if !plain.starts_with(want_prefix) || (has_x_prefix != cfg.has(X)) {
        crate::findings::report(ctx, viol("C06", "structure", format!("flag-prefix flags={}", cfg.flag_names().join(",")), tcs, cfg, out, json!({"expected_prefix": want_prefix})));
        return;
    }
    let a = match ast::parse::ParserBuilder::new().nest_limit(100_000).build().parse(&plain) {
        Ok(a) => a,
        Err(_) => return, // reported as invalid by the language part
    };
    let mut gs = vec![];
    groups(&a, &mut gs);
    let bad = if cfg.has(G) { gs.iter().any(|k| *k != "capture") } else { gs.iter().any(|k| *k != "noncapturing") };
    if bad {
        crate::findings::report(ctx, viol("C06", "structure", format!("group-kind g={}", cfg.has(G)), tcs, cfg, out, json!({"group_kinds": gs, "expected": if cfg.has(G) {"all capture"} else {"all noncapturing"}})));
    }
}

pub fn check_case(ctx: &Ctx, tcs: &[String], cfg: &Cfg) {
    // cfg carries a non-empty subset of {x,g,e}; compare with the same settings minus that subset
    let base = cfg.without(X | G | E);
    if let Some((oa, ob)) = check_diff(ctx, "C06", tcs, cfg, &base, "presentation") {
        structure(ctx, tcs, cfg, &oa);
        structure(ctx, tcs, &base, &ob);
    }
}

fn pres(bases: &[u32]) -> Vec<Cfg> {
    let mut v = vec![];
    for b in bases {
        for s in 1..8u32 {
            let bits = (if s & 1 != 0 { X } else { 0 }) | (if s & 2 != 0 { G } else { 0 }) | (if s & 4 != 0 { E } else { 0 });
            v.push(Cfg::new(b | bits));
        }
    }
    v.sort();
    v.dedup();
    v
}

pub fn blocks(thorough: bool) -> Vec<Block> {
    let mut b = vec![];
    let bases8 = [0, I, R, D, NS, NA, NE, NA | NE];
    let ws: Vec<&str> = A_WS.to_vec();
    if !thorough {
        b.push(Block::new(Universe::new("U_ab3{a,b}", &["a", "b"], 3, 4, true), pres(&[0]), "7 non-empty subsets of {x,g,e}"));
        b.push(Block::new(Universe::new("U_adv(A_ws)", &ws, 2, 2, true), vec![Cfg::new(X), Cfg::new(X | I), Cfg::new(X | G | E)], "x, x+i, x+g+e"));
        b.push(Block::new(Universe::new("U_adv(A_ws)", &ws, 1, 2, true), pres(&[0, NS, R]), "7 subsets x {{}, S, r}"));
        b.push(Block::new(Universe::new("U_adv(A_meta)", A_META, 2, 2, true), vec![Cfg::new(X), Cfg::new(G), Cfg::new(X | G | E | R)], "x, g, x+g+e+r"));
        b.push(Block::new(Universe::new("U_adv(A_esc)", A_ESC, 2, 2, true), vec![Cfg::new(E), Cfg::new(X | E), Cfg::new(G | E | R)], "e, x+e, g+e+r"));
        b.push(Block::new(Universe::new("U_adv(A_gc)", A_GC, 2, 2, true), vec![Cfg::new(E), Cfg::new(X | G | E), Cfg::new(G | R)], "e, x+g+e, g+r"));
        b.push(Block::new(Universe::new("U_abc2{a,b,c}", &["a", "b", "c"], 2, 3, true), pres(&bases8), "7 subsets x 8 bases {{},i,r,d,S,na,ne,na+ne}"));
        b.push(Block::new(Universe::new("U_adv(A_ws)", &ws, 1, 3, false), pres(&[0, I, NA | NE]), "7 subsets x {{}, i, na+ne}"));
        b.push(Block::new(Universe::new("U_adv(A_cons)", A_CONS, 1, 3, false), pres(&[0]), "7 subsets"));
        b.push(Block::new(crate::props::c05::u_rep_single(&["a", "#", " "], 8), vec![Cfg::new(R | X), Cfg::new(R | X | G), Cfg::new(R | X | E)], "r+x, r+x+g, r+x+e ('#' and space inside repeated units)"));
        b.push(Block::new(crate::props::c05::u_rep_single(&["a", "1"], 8), pres(&[R | D, R | W | I]), "7 subsets x {r+d, r+w+i} (class tokens inside nested repetitions)"));
        b.push(Block::new(Universe::new("U_pairs{e9,1f4a9,a}^<=4", &["\u{e9}", "\u{1f4a9}", "a"], 4, 2, false), vec![Cfg::new(E | R), Cfg::new(E | R | X), Cfg::new(G | R), Cfg::new(X | R)], "e+r, e+r+x, g+r, x+r (optional quantified runs of escaped characters)"));
        b.push(Block::new(Universe::new("U_adv(A_gcm)", A_GCM, 3, 1, false), pres(&[0, R]), "7 subsets x {{}, r}"));
        b.push(Block::new(u_kind_pairs(2, 2, false), pres(&[0]), "7 subsets"));
        b.push(Block::new(u_runs(), pres(&[0, I]), "7 subsets x {{}, i}"));
        b.push(Block::new(u_kind_triples(), pres(&[0]), "7 subsets"));
        b.push(Block::new(u_many(30), pres(&[0]), "7 subsets"));
        b.push(Block::new(u_nested_rep(), pres(&[R]), "7 subsets x r"));
        b.push(Block::new(Universe::new("U_adv(cluster units)", &["\u{d4e}a", ".\u{1f3fb}", "1\u{e33}", "a", "\u{111c2}-"], 4, 1, false), pres(&[R, R | I]), "7 subsets x {r, r+i} (a two-scalar cluster that is not split, repeated)"));
        b.push(Block::new(u_long_literal_at(), vec![Cfg::new(X), Cfg::new(X | E), Cfg::new(X | G | I)], "x, x+e, x+g+i"));
    } else {
        let b2: Vec<u32> = lattice_le(0, ALL_BITS & !(X | G | E | U | C), 2).iter().map(|c| c.bits).collect();
        b.push(Block::new(Universe::new("U_ab3{a,b}", &["a", "b"], 3, 0, true), pres(&bases8), "7 subsets x 8 bases"));
        b.push(Block::new(Universe::new("U_adv(A_ws)", &ws, 2, 2, true), pres(&bases8), "7 subsets x 8 bases"));
        b.push(Block::new(Universe::new("U_adv(A_meta)", A_META, 2, 2, true), pres(&bases8), "7 subsets x 8 bases"));
        b.push(Block::new(Universe::new("U_adv(A_esc)", A_ESC, 2, 2, true), pres(&bases8), "7 subsets x 8 bases"));
        b.push(Block::new(Universe::new("U_adv(A_gc)", A_GC, 2, 2, true), pres(&bases8), "7 subsets x 8 bases"));
        b.push(Block::new(Universe::new("U_abc2{a,b,c}", &["a", "b", "c"], 2, 0, true), pres(&b2), "7 subsets x Lambda<=2 bases"));
        b.push(Block::new(Universe::new("U_adv(A_ws)", &ws, 1, 3, false), pres(&b2), "7 subsets x Lambda<=2 bases"));
        b.push(Block::new(Universe::new("U_adv(A_cons)", A_CONS, 1, 4, false), pres(&bases8), "7 subsets x 8 bases"));
        b.push(Block::new(Universe::new("U_pairs{e9,1f4a9,a}^<=4", &["\u{e9}", "\u{1f4a9}", "a"], 4, 2, false), pres(&[R, R | I]), "7 subsets x {r, r+i}"));
        b.push(Block::new(Universe::new("U_adv(A_gcm)", A_GCM, 3, 1, false), pres(&bases8), "7 subsets x 8 bases"));
        b.push(Block::new(Universe::new("U_adv(A_gcm)", A_GCM, 2, 2, false), pres(&[0, R]), "7 subsets x {{}, r}"));
        b.push(Block::new(u_kind_pairs(2, 3, false), pres(&[0]), "7 subsets"));
        b.push(Block::new(u_kind_pairs(2, 2, true), pres(&[R, I, NA | NE]), "7 subsets x {r, i, na+ne}"));
        b.push(Block::new(u_kind_pairs(3, 1, false), pres(&bases8), "7 subsets x 8 bases"));
        b.push(Block::new(u_runs(), pres(&bases8), "7 subsets x 8 bases"));
        b.push(Block::new(u_kind_triples(), pres(&bases8), "7 subsets x 8 bases"));
        b.push(Block::new(u_many(120), pres(&[0, R, NA | NE]), "7 subsets x {{}, r, na+ne}"));
    }
    if thorough {
        // the thorough space is a superset of the quick one: every quick block first, then the deeper ones
        let mut all = blocks(false);
        all.extend(b);
        return all;
    }
    b
}

pub fn run(ctx: &Ctx) {
    *ctx.run.rule.lock().unwrap() = "universes over whitespace of every kind (tab, LF, VT, FF, CR, NEL, NBSP, U+1680, U+2003, U+2028/9, U+202F, U+205F, U+3000, ZWSP, space, '#'), metacharacters, astral/boundary scalars, grapheme clusters and {a,b}^<=3 x every non-empty subset of {x,g,e} x base settings; each case = product exploration of the build with the subset against the build without it, plus flag-prefix and group-kind checks on the regex-syntax AST of both outputs; non-trivial as in C01; distinct by hash of (set, both settings)".into();
    sweep(ctx, &blocks(ctx.run.is_thorough()), check_case);
}
