//! C15 Syntax highlighting only adds colour codes: strip(SGR)(coloured build) == plain build.
use crate::cfgs::*;
use crate::core::*;
use crate::ev::hash_case;
use crate::lang;
use crate::space::*;
use crate::sweep::*;
use serde_json::json;

pub fn check_case(ctx: &Ctx, tcs: &[String], cfg: &Cfg) {
    // cfg does not contain C
    let run = &ctx.run;
    run.eval();
    run.mark_nontrivial(hash_case(tcs, cfg));
    let plain = match cfg.build(tcs) {
        Ok(o) => o,
        Err(_) => return, // totality is C07's business
    };
    let col = match cfg.or(C).build(tcs) {
        Ok(o) => o,
        Err(m) => return crate::findings::report(ctx, viol("C15", "panic", format!("panic-with-colour flags={}", cfg.flag_names().join(",")), tcs, &cfg.or(C), "", json!({"panic": m.chars().take(300).collect::<String>()}))),
    };
    let stripped = lang::strip_sgr(&col);
    if stripped != plain {
        let sig = format!("stripped-differs x={} anchors={}{}", cfg.has(X), if cfg.has(NA) { "na" } else { "" }, if cfg.has(NE) { "ne" } else { "" });
        crate::findings::report(ctx, viol("C15", "string", sig, tcs, &cfg.or(C), &col, json!({"stripped": stripped, "expected": plain})));
    } else if run.want_sample() && col != plain {
        run.sample(json!({"test_cases": tcs, "settings": cfg.or(C).name(), "coloured": col, "plain": plain}));
    }
}

pub fn run(ctx: &Ctx) {
    let thorough = ctx.run.is_thorough();
    *ctx.run.rule.lock().unwrap() = "universes over {a,b}^<=3, SGR look-alike alphabet (ESC [ m 0 ; 1 $ ) ( ), metacharacters and class-rich alphabet x settings lattice (deviation bound per block, u included) with and without c; oracle is purely textual: removing exact SGR sequences ESC [ digits(;digits)* m from the coloured build must give the uncoloured build byte for byte (indentation included); every case is non-trivial (colour acts on every pattern: anchors at least) and distinct by hash".into();
    let free = ALL_BITS & !C;
    let k1 = lattice_le(0, free, 1);
    let k2 = lattice_le(0, free, 2);
    let k3 = lattice_le(0, free, 3);
    let mut b = vec![];
    {
        b.push(Block::new(Universe::new("U_ab3{a,b}", &["a", "b"], 3, 0, true), vec![Cfg::new(0), Cfg::new(X), Cfg::new(X | NA | NE), Cfg::new(R | X), Cfg::new(G | X)], "{}, x, x+na+ne, r+x, g+x"));
        b.push(Block::new(Universe::new("U_adv(A_sgr)", A_SGR, 2, 2, true), k2.clone(), "Lambda<=2"));
        b.push(Block::new(Universe::new("U_adv(A_meta)", A_META, 2, 2, true), k1.clone(), "Lambda<=1"));
        b.push(Block::new(Universe::new("U_adv(A_cls)", A_CLS, 2, 2, true), k2.clone(), "Lambda<=2"));
        b.push(Block::new(Universe::new("U_abc2{a,b,c}", &["a", "b", "c"], 2, 3, true), k3.clone(), "Lambda<=3"));
        let rx: Vec<Cfg> = [R, R | X, R | X | NA | NE, R | X | G, R | X | I, R | X | E, R | NE].iter().map(|b| Cfg::new(*b)).collect();
        b.push(Block::new(crate::props::c05::u_rep_single(&["a", "b"], 7), rx.clone(), "r, r+x, r+x+na+ne, r+x+g, r+x+i, r+x+e, r+ne"));
        b.push(Block::new(Universe::new("U_pairs{a,b}^<=4", &["a", "b"], 4, 2, false), vec![Cfg::new(R | X), Cfg::with(R | X, 2, 1)], "r+x, r+x(2,1)"));
        b.push(Block::new(u_kind_pairs(2, 2, false), vec![Cfg::new(0), Cfg::new(X), Cfg::new(R | X | NE)], "{}, x, r+x+ne"));
        b.push(Block::new(u_runs(), k2.clone(), "Lambda<=2"));
        b.push(Block::new(u_kind_triples(), vec![Cfg::new(0), Cfg::new(X), Cfg::new(R | X | NE), Cfg::new(E | U)], "{}, x, r+x+ne, e+u"));
        b.push(Block::new(u_many(30), k1.clone(), "Lambda<=1"));
        b.push(Block::new(u_nested_rep(), vec![Cfg::new(R), Cfg::new(R | X), Cfg::new(R | G)], "r, r+x, r+g"));
        b.push(Block::new(u_long_literal_at(), vec![Cfg::new(X), Cfg::new(0), Cfg::new(X | E)], "x, {}, x+e"));
        b.push(Block::new(crate::props::c05::u_rep_single(&["\u{e9}", "a", "b"], 6), vec![Cfg::new(R | E), Cfg::new(R | E | X), Cfg::new(R | E | U)], "r+e, r+e+x, r+e+u"));
    }
    if thorough {
        let rx = lattice_le(R | X, free, 2);
        b.push(Block::new(crate::props::c05::u_rep_single(&["a", "b"], 9), rx.clone(), "r+x + Lambda<=2"));
        b.push(Block::new(crate::props::c05::u_rep_single(&["a", "\u{1f4a9}", "("], 6), rx.clone(), "r+x + Lambda<=2"));
        b.push(Block::new(Universe::new("U_pairs{a,b}^<=4", &["a", "b"], 4, 2, false), lattice_le(R | X, free, 1), "r+x + Lambda<=1"));
        b.push(Block::new(Universe::new("U_ab3{a,b}", &["a", "b"], 3, 0, true), k2.clone(), "Lambda<=2"));
        b.push(Block::new(Universe::new("U_adv(A_sgr)", A_SGR, 2, 2, true), k3.clone(), "Lambda<=3"));
        b.push(Block::new(Universe::new("U_adv(A_meta)", A_META, 2, 2, true), k3.clone(), "Lambda<=3"));
        b.push(Block::new(Universe::new("U_adv(A_cls)", A_CLS, 2, 2, true), k3.clone(), "Lambda<=3"));
        b.push(Block::new(Universe::new("U_adv(A_ws)", A_WS, 2, 2, true), k2.clone(), "Lambda<=2"));
        b.push(Block::new(u_kind_pairs(2, 3, false), k1.clone(), "Lambda<=1"));
        b.push(Block::new(u_kind_pairs(3, 1, false), k2.clone(), "Lambda<=2"));
        b.push(Block::new(u_runs(), k3.clone(), "Lambda<=3"));
        b.push(Block::new(u_kind_triples(), k2.clone(), "Lambda<=2"));
        b.push(Block::new(u_many(120), k2.clone(), "Lambda<=2"));
        b.push(Block::new(Universe::from_words("curated(C07)", crate::props::c07::curated().into_iter().map(|v| v.join("\u{1}")).collect(), 1), lattice_all(0, free), "Lambda_full"));
    }
    // the curated block stores whole test-case lists joined by U+0001; split them back
    let split = |ctx: &Ctx, tcs: &[String], cfg: &Cfg| {
        if tcs.len() == 1 && tcs[0].contains('\u{1}') {
            let t: Vec<String> = tcs[0].split('\u{1}').map(|s| s.to_string()).collect();
            check_case(ctx, &t, cfg)
        } else {
            check_case(ctx, tcs, cfg)
        }
    };
    sweep(ctx, &b, split);
}
