//! C04 Case-insensitive matching accepts exactly the simple-fold variants of the original test cases.
use crate::cfgs::*;
use crate::core::*;
use crate::ev::{hash_case, par_for};
use crate::space::*;
use crate::sweep::*;
use serde_json::json;

pub fn check_case(ctx: &Ctx, tcs: &[String], cfg: &Cfg) {
    // flag prefix first (cheap, textual)
    if let Ok(out) = cfg.build(tcs) {
        let want = if cfg.has(X) { "(?ix)" } else { "(?i)" };
        let plain = if cfg.has(C) { crate::lang::strip_sgr(&out) } else { out.clone() };
        if !plain.starts_with(want) {
            crate::findings::report(ctx, viol("C04", "structure", "missing-(?i)-flag".into(), tcs, cfg, &out, json!({"expected_prefix": want})));
        }
    }
    check_spec_eq(ctx, "C04", tcs, cfg)
}

/// (c) test cases that differ only by case collapse: build(T ∪ upper(T)) == build(lower(T)) as strings.
fn collapse(ctx: &Ctx, tcs: &[String], cfg: &Cfg) {
    let run = &ctx.run;
    run.eval();
    let lower: Vec<String> = tcs.iter().map(|t| t.to_lowercase()).collect();
    let mut both: Vec<String> = tcs.to_vec();
    both.extend(tcs.iter().map(|t| t.to_uppercase()));
    both.extend(lower.iter().cloned());
    run.mark_nontrivial(hash_case(&both, cfg));
    match (cfg.build(&both), cfg.build(&lower)) {
        (Ok(a), Ok(b)) => {
            if a != b {
                crate::findings::report(ctx, viol("C04", "string", "case-variants-not-collapsed".into(), &both, cfg, &a, json!({"expected_equal_to_build_of": lower, "expected": b})));
            }
        }
        (Err(m), _) | (_, Err(m)) => crate::findings::report(ctx, viol("C04", "panic", format!("panic:{}", m.chars().take(50).collect::<String>()), &both, cfg, "", json!({"panic": m}))),
    }
}

/// (c') a list whose members all have the same std lower-casing collapses to the build of that one string.
fn collapse_list(ctx: &Ctx, tcs: &[String], cfg: &Cfg) {
    let lower: Vec<String> = tcs.iter().map(|t| t.to_lowercase()).collect();
    if lower.iter().any(|l| *l != lower[0]) {
        return;
    }
    // "differ only by case" is judged by the engine the property names: every member must be accepted by the
    // case-insensitive literal of the lower-cased string (a capital the engine's fold tables do not know is kept
    // as given by grex, and is not required to collapse)
    let lit = match regex::Regex::new(&format!("(?i)^{}$", regex::escape(&lower[0]))) {
        Ok(r) => r,
        Err(_) => return,
    };
    if tcs.iter().any(|t| !lit.is_match(t)) {
        return;
    }
    ctx.run.eval();
    let one = vec![lower[0].clone()];
    match (cfg.build(tcs), cfg.build(&one)) {
        (Ok(a), Ok(b)) => {
            if a != b {
                crate::findings::report(ctx, viol("C04", "string", "case-variants-not-collapsed".into(), tcs, cfg, &a, json!({"expected_equal_to_build_of": one, "expected": b})));
            }
        }
        (Err(m), _) | (_, Err(m)) => crate::findings::report(ctx, viol("C04", "panic", format!("panic:{}", m.chars().take(50).collect::<String>()), tcs, cfg, "", json!({"panic": m}))),
    }
}

pub fn case_partner_lists() -> Vec<Vec<String>> {
    let mut pairs: Vec<Vec<String>> = vec![];
    for c in (0..=0x10FFFFu32).filter_map(char::from_u32) {
        let lo: Vec<char> = c.to_lowercase().collect();
        let up: Vec<char> = c.to_uppercase().collect();
        for p in [lo, up] {
            if p.len() == 1 && p[0] != c {
                pairs.push(vec![p[0].to_string(), c.to_string()]);
                pairs.push(vec![c.to_string(), p[0].to_string()]);
                pairs.push(vec![format!("{}{}", p[0], c)]);
                pairs.push(vec![format!("{}{}", c, p[0])]);
                pairs.push(vec![format!("{}x", p[0]), format!("{}y", c)]);
                pairs.push(vec![format!("ab{}c", p[0]), "xyz".to_string(), format!("AB{}C", c)]);
                // a second cased letter in front, in both list orders: the two test cases share their lower-cased form
                pairs.push(vec![format!("A{}", p[0]), format!("A{}", c)]);
                pairs.push(vec![format!("A{}", c), format!("A{}", p[0])]);
            }
        }
    }
    pairs
}

pub fn run(ctx: &Ctx) {
    let thorough = ctx.run.is_thorough();
    *ctx.run.rule.lock().unwrap() = "(a) every scalar of the slice (quick: every scalar with a non-trivial simple fold or std case mapping +-1, all table boundaries; thorough: all 1,112,064) as a one-character test case with i; (b) subsets of A_case^<=k (dotted/dotless i, sharp s, sigmas, Kelvin, Cherokee, titlecase digraph) x {i}+bases; (c) collapse of ASCII case variants; oracle = spec HIR with ClassUnicode::case_fold_simple applied to every original code point; product explored completely per case; non-trivial: every case here has the i flag acting on it; distinct by hash".into();
    let list = crate::props::scalar_slice(thorough, &ctx.k);
    let cfg_i = Cfg::new(I);
    par_for(list.len(), |i| {
        let tcs = vec![list[i].to_string()];
        ctx.run.mark_nontrivial(hash_case(&tcs, &cfg_i));
        check_case(ctx, &tcs, &cfg_i);
    });
    ctx.run.space(json!({"universe": if thorough {"U_scalar (all scalars)"} else {"U_scalar slice (case-nontrivial scalars +-1, table boundaries, one per 256-block)"}, "sets": list.len(), "settings": "i", "cases": list.len()}));
    // (a') every cased scalar together with its std lower/upper-case partner, in both list orders and inside
    // one string in both orders: the partner is what lower-casing maps to, so any per-call state, cache or
    // shortcut keyed on one of them meets the other
    let pairs = case_partner_lists();
    par_for(pairs.len(), |i| {
        ctx.run.mark_nontrivial(hash_case(&pairs[i], &cfg_i));
        check_case(ctx, &pairs[i], &cfg_i);
        collapse_list(ctx, &pairs[i], &cfg_i);
    });
    ctx.run.space(json!({"universe": "every scalar with a single-scalar std lower- or upper-case partner p: lists [p,c], [c,p], [\"pc\"], [\"cp\"], [\"px\",\"cy\"], [\"Ap\",\"Ac\"], [\"Ac\",\"Ap\"] (list order as given); each list whose members share one std lower-casing must build to exactly the build of that lower-cased string (collapse, every cased scalar incl. titlecase)", "sets": pairs.len(), "settings": "i", "cases": pairs.len()}));
    let bases: Vec<Cfg> = [0, R, X, G, E, D, W, ND, NW | NS].iter().map(|b| Cfg::new(I | b)).collect();
    let mut blocks = vec![Block::new(Universe::new("U_adv(A_case)", A_CASE, 2, 2, true), bases.clone(), "i x {{}, r, x, g, e, d, w, D, W+S}")];
    blocks.push(Block::new(Universe::new("U_adv(A_case)", A_CASE, 3, 1, false), bases.clone(), "i x {{}, r, x, g, e, d, w, D, W+S}"));
    blocks.push(Block::new(Universe::new("U_aAbB{a,A,b,B}", &["a", "A", "b", "B"], 2, 3, true), vec![Cfg::new(I), Cfg::new(I | R), Cfg::new(I | NA | NE)], "i, i+r, i+na+ne"));
    blocks.push(Block::new(u_runs(), vec![Cfg::new(I), Cfg::new(I | X), Cfg::new(I | W)], "i, i+x, i+w"));
    blocks.push(Block::new(u_many(if thorough { 120 } else { 30 }), vec![Cfg::new(I), Cfg::new(I | R)], "i, i+r"));
    blocks.push(Block::new(u_kind_triples(), vec![Cfg::new(I), Cfg::new(I | X | E)], "i, i+x+e"));
    blocks.push(Block::new(Universe::new("U_i4{U+0130,a,A,-,1}", &["\u{130}", "a", "A", "-", "1"], 4, 1, false), vec![Cfg::new(I | R), Cfg::new(I | R | NW), Cfg::new(I | R | ND), Cfg::new(I | R | NS | D), Cfg::new(I | R | W), Cfg::new(I | R | E)], "i+r, i+r+W, i+r+D, i+r+S+d, i+r+w, i+r+e"));
    if !thorough {
        blocks.push(Block::new(u_kind_pairs(2, 2, false), vec![Cfg::new(I)], "i"));
    } else {
        blocks.push(Block::new(u_kind_pairs(2, 3, false), vec![Cfg::new(I), Cfg::new(I | X)], "i, i+x"));
        blocks.push(Block::new(u_kind_pairs(3, 1, false), bases.clone(), "i x {{}, r, x, g, e, d, w, D, W+S}"));
    }
    if thorough {
        blocks.push(Block::new(Universe::new("U_aAbB{a,A,b,B}", &["a", "A", "b", "B"], 3, 3, true), vec![Cfg::new(I), Cfg::new(I | NE)], "i, i+ne"));
        blocks.push(Block::new(Universe::new("U_adv(A_case)", A_CASE, 2, 3, true), vec![Cfg::new(I)], "i"));
    }
    sweep(ctx, &blocks, check_case);
    let u = Universe::new("U_aAbB{a,A,b,B}", &["a", "A", "b", "B"], 2, 3, false);
    let cfgs = [Cfg::new(I), Cfg::new(I | R), Cfg::new(I | W)];
    par_for(u.len(), |i| {
        let t = u.set(i);
        for c in &cfgs {
            collapse(ctx, &t, c);
        }
    });
    ctx.run.space(json!({"universe": "collapse: T ∪ upper(T) ∪ lower(T) vs lower(T) for T in subsets(size<=3) of {a,A,b,B}^<=2", "sets": u.len(), "settings": "i, i+r, i+w", "cases": u.len() * 3}));
}
