//! C08 Anchors: only requested anchors; disabling them leaves the body language alone; searching a
//! test case (leftmost-first, real engine) yields a match spanning the whole test case.
use crate::cfgs::*;
use crate::core::*;
use crate::lang;
use crate::space::*;
use crate::sweep::*;
use serde_json::json;

pub fn check_case(ctx: &Ctx, tcs: &[String], cfg: &Cfg) {
    // cfg has NA and/or NE
    let anchored = cfg.without(NA | NE);
    let Some((out, _)) = check_diff(ctx, "C08", tcs, cfg, &anchored, "anchors") else { return };
    let Ok(text) = prep(&out, cfg) else { return };
    // (1) structural, on the HIR of the pattern as returned
    if let Ok(h) = lang::parse(&text) {
        let (s, e, stray) = lang::anchor_shape(&h);
        if s == cfg.has(NA) || e == cfg.has(NE) || stray != 0 {
            crate::findings::report(ctx, viol("C08", "structure", format!("anchor-placement flags={}", cfg.flag_names().join(",")), tcs, cfg, &out,
                json!({"leading_start": s, "trailing_end": e, "stray_looks": stray, "expected_start": !cfg.has(NA), "expected_end": !cfg.has(NE)})));
        }
    }
    // (3) search semantics on the real engine, every test case
    if cfg.has(C) {
        return;
    }
    let re = match lang::compile_real(&text) {
        Ok(r) => r,
        Err(_) => return,
    };
    for t in tcs {
        let m = re.find(t).map(|m| (m.start(), m.end()));
        ctx.run.traces.fetch_add(1, std::sync::atomic::Ordering::Relaxed);
        if m != Some((0, t.len())) {
            // Is it the pattern, or the optimised search path of the engine? The property speaks about leftmost-first
            // semantics; the PikeVM is the engine's own reference implementation of them.
            if let Ok(reference) = lang::pikevm_find(&text, t) {
                if reference == Some((0, t.len())) {
                    ctx.run.add_extra_count("engine_search_disagreements_with_its_reference_pikevm", 1);
                    if ctx.run.want_sample() {
                        ctx.run.sample(json!({"engine_disagreement": {"pattern": text, "haystack": t, "regex_find": m.map(|x| vec![x.0, x.1]), "pikevm_find": [0, t.len()]}}));
                    }
                    continue;
                }
            }
            let sig = format!("search-not-whole-test-case flags={}", cfg.flag_names().join(","));
            crate::findings::report(ctx, viol("C08", "search", sig, tcs, cfg, &out, json!({"searched": t, "found_span": m.map(|x| vec![x.0, x.1]), "expected_span": [0, t.len()]})));
            return;
        }
    }
}

fn anch(bases: &[u32]) -> Vec<Cfg> {
    let mut v = vec![];
    for b in bases {
        for a in [NA, NE, NA | NE] {
            v.push(Cfg::new(b | a));
        }
    }
    v
}

pub fn blocks(thorough: bool) -> Vec<Block> {
    let units: Vec<&str> = vec!["a", "a\u{1f3fb}", "\u{1f1e9}", "\u{1f1e9}\u{1f1ea}", "\u{1100}", "\u{1161}", "\u{11a8}", "\u{301}", "\\", "b"];
    let bases7 = [0, X, I, R, D, W, G];
    let mut b = vec![];
    if !thorough {
        b.push(Block::new(Universe::new("U_ab3{a,b}", &["a", "b"], 3, 0, false), anch(&[0, R]), "{na,ne,na+ne} x {{}, r}"));
        b.push(Block::new(Universe::new("U_ab3{a,b}", &["a", "b"], 3, 3, true), anch(&[R]), "{na,ne,na+ne} x r"));
        b.push(Block::new(Universe::new("U_abc2{a,b,c}", &["a", "b", "c"], 2, 3, true), anch(&bases7), "{na,ne,na+ne} x {{},x,i,r,d,w,g}"));
        b.push(Block::new(Universe::new("U_adv(units)", &units, 2, 2, false), anch(&[0, R, X]), "{na,ne,na+ne} x {{}, r, x}"));
        b.push(Block::new(Universe::new("U_adv(units)", &units, 1, 4, false), anch(&[0, R, I, W]), "{na,ne,na+ne} x {{}, r, i, w}"));
        b.push(Block::new(Universe::new("U_a1A{a,1,A}", &["a", "1", "A"], 2, 3, true), anch(&[D, W, I, D | I | R]), "{na,ne,na+ne} x {d,w,i,d+i+r}"));
        b.push(Block::new(u_corpus("U_large", verif_seed() + 4, 1_000, &["a", "b"], (8, 16), (3, 8)), anch(&[0, R]), "{na,ne,na+ne} x {{}, r} (corpus of large prefix-rich sets)"));
        b.push(Block::new(Universe::new("U_mb{a,e9,-}", &["a", "\u{e9}", "-"], 3, 3, false), vec![Cfg::new(W | R | NE), Cfg::new(NW | R | NE), Cfg::new(W | R | NA | NE)], "w+r+ne, W+r+ne, w+r+na+ne (byte length vs character count in the fallback)"));
        b.push(Block::new(Universe::new("U_fold{s,U+017F,k,U+212A}", &["s", "\u{17f}", "k", "\u{212a}"], 3, 2, false), anch(&[I, I | R, I | X, I | R | X]), "{na,ne,na+ne} x {i, i+r, i+x, i+r+x}"));
        b.push(Block::new(u_kind_pairs(2, 2, false), anch(&[0]), "{na,ne,na+ne}"));
        b.push(Block::new(u_many(30), anch(&[0, R, X]), "{na,ne,na+ne} x {{}, r, x}"));
        {
            // a shadowing shape (a shorter test case is a prefix of a longer one and sorts first) next to one long
            // test case: whatever the self-check does with big patterns, the small shape still has to be repaired
            let shapes: [&[&str]; 3] = [&["a", "-a", "aaa", "a--"], &["a", "ba", "aab", "aba"], &["1", "x1", "111", "1xx"]];
            let mut words_l: Vec<String> = vec![];
            let mut sets_l: Vec<Vec<usize>> = vec![];
            for sh in shapes {
                for n in [1usize, 30, 60, 120, 240] {
                    let mut set = vec![];
                    for w in sh.iter().map(|x| x.to_string()).chain([format!("+{}", "xy".repeat(n / 2 + 1))]) {
                        let i = match words_l.iter().position(|x| *x == w) {
                            Some(i) => i,
                            None => {
                                words_l.push(w);
                                words_l.len() - 1
                            }
                        };
                        set.push(i);
                    }
                    sets_l.push(set);
                }
            }
            let u = Universe { name: "U_shadow+long: three shadowing shapes of 4 test cases, each next to + followed by 2..242 letters".to_string(), words: words_l, sets: sets_l };
            b.push(Block::new(u, anch(&[0, W, NW, D | W, ND, W | R]), "{na,ne,na+ne} x {{}, w, W, d+w, D, w+r}"));
        }
        b.push(Block::new(Universe::new("U_b,U+00DF", &["b", "\u{df}"], 3, 0, false), vec![Cfg::new(NE | E | U), Cfg::new(NA | NE | E | U), Cfg::new(NE | E)], "ne+e+u, na+ne+e+u, ne+e (escaping on BMP-only inputs: no surrogate is ever written, the pattern is meant for the regex crate)"));
        let class_pairs: Vec<u32> = {
            let f = [D, ND, S, NS, W, NW];
            let mut v = vec![];
            for i in 0..6 {
                for j in i + 1..6 {
                    v.push(f[i] | f[j]);
                }
            }
            v.extend([D | W | S, D | W | NS, ND | NW | S]);
            v
        };
        b.push(Block::new(Universe::new("U_a1sp{a,1,space}", &["a", "1", " "], 2, 3, true), anch(&class_pairs), "{na,ne,na+ne} x all 15 pairs of class flags + 3 triples (overlapping classes: one test case's tokens also accept another's characters)"));
        b.push(Block::new(u_kind_triples(), anch(&[0]), "{na,ne,na+ne}"));
    } else {
        let b2: Vec<u32> = lattice_le(0, ALL_BITS & !(NA | NE | U | C), 2).iter().map(|c| c.bits).collect();
        b.push(Block::new(Universe::new("U_ab3{a,b}", &["a", "b"], 3, 0, true), anch(&bases7), "{na,ne,na+ne} x 7 bases"));
        b.push(Block::new(Universe::new("U_abc2{a,b,c}", &["a", "b", "c"], 2, 0, true), anch(&b2), "{na,ne,na+ne} x Lambda<=2 bases"));
        b.push(Block::new(Universe::new("U_ab4{a,b}", &["a", "b"], 4, 4, true), anch(&[0, R]), "{na,ne,na+ne} x {{}, r}"));
        b.push(Block::new(Universe::new("U_ab4{a,b}", &["a", "b"], 4, 5, false), anch(&[0]), "{na,ne,na+ne}"));
        b.push(Block::new(u_corpus("U_large", verif_seed() + 4, 40_000, &["a", "b"], (8, 16), (3, 8)), anch(&[0, R, I]), "{na,ne,na+ne} x {{}, r, i} (corpus)"));
        b.push(Block::new(Universe::new("U_mb{a,e9,-}", &["a", "\u{e9}", "-"], 3, 3, false), anch(&[W | R, NW | R, I | R, W]), "{na,ne,na+ne} x {w+r, W+r, i+r, w}"));
        b.push(Block::new(Universe::new("U_fold{s,U+017F,k,U+212A}", &["s", "\u{17f}", "k", "\u{212a}"], 3, 3, false), anch(&[I, I | R, I | X, I | R | X, I | R | G]), "{na,ne,na+ne} x {i, i+r, i+x, i+r+x, i+r+g}"));
        b.push(Block::new(Universe::new("U_adv(units)", &units, 2, 3, false), anch(&[0, R, X]), "{na,ne,na+ne} x {{}, r, x}"));
        b.push(Block::new(Universe::new("U_adv(units)", &units, 3, 2, false), anch(&[0, R]), "{na,ne,na+ne} x {{}, r}"));
        b.push(Block::new(Universe::new("U_a1A{a,1,A}", &["a", "1", "A"], 3, 3, true), anch(&[D, W, I, D | I | R]), "{na,ne,na+ne} x {d,w,i,d+i+r}"));
        b.push(Block::new(u_kind_pairs(2, 3, false), anch(&[0, X]), "{na,ne,na+ne} x {{}, x}"));
        b.push(Block::new(u_kind_pairs(2, 2, true), anch(&[R, I]), "{na,ne,na+ne} x {r, i}"));
        b.push(Block::new(u_runs(), anch(&bases7), "{na,ne,na+ne} x 7 bases"));
        b.push(Block::new(u_many(120), anch(&bases7), "{na,ne,na+ne} x 7 bases"));
        b.push(Block::new(Universe::new("U_a1sp-{a,1,space,-}", &["a", "1", " ", "-"], 2, 3, true), anch(&lattice_all(0, CLASS_BITS).iter().map(|c| c.bits).collect::<Vec<u32>>()), "{na,ne,na+ne} x all 64 class subsets"));
        b.push(Block::new(u_kind_triples(), anch(&[0, X, R]), "{na,ne,na+ne} x {{}, x, r}"));
    }
    if thorough {
        // the thorough space is a superset of the quick one: every quick block first, then the deeper ones
        let mut all = blocks(false);
        all.extend(b);
        return all;
    }
    b
}

pub fn run(ctx: &Ctx) {
    *ctx.run.rule.lock().unwrap() = "prefix-rich universes (all subsets of {a,b}^<=3 and {a,b,c}^<=2 with epsilon; grapheme-cluster units whose prefixes are other units; digit/case mixes under class and case flags) x {no start, no end, neither} x base settings; per case: anchor placement on the HIR, product exploration of body-with-anchors-re-added against the fully anchored build, and Regex::find on every test case with the real engine (counted in traces_validated_against_impl together with product-state replays); non-trivial as in C01; distinct by hash".into();
    sweep(ctx, &blocks(ctx.run.is_thorough()), check_case);
}
