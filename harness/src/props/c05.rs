//! C05 Repetition conversion is a notation change only: L(build with r) = L(build without r).
use crate::cfgs::*;
use crate::core::*;
use crate::space::*;
use crate::sweep::*;

pub fn check_case(ctx: &Ctx, tcs: &[String], cfg: &Cfg) {
    check_diff(ctx, "C05", tcs, cfg, &cfg.without(R), "repetitions");
}

fn thr(bases: &[u32], grid: &[(u32, u32)]) -> Vec<Cfg> {
    let mut v = vec![];
    for b in bases {
        for (r, l) in grid {
            v.push(Cfg::with(R | b, *r, *l));
        }
    }
    v
}

pub fn u_rep_single(sigma: &[&str], k: usize) -> Universe {
    Universe::from_words(&format!("U_rep single strings over {{{}}}^<={k}", sigma.join(",")), words(sigma, k, false), 1)
}

pub fn blocks(thorough: bool) -> Vec<Block> {
    let grid44: Vec<(u32, u32)> = (1..=4).flat_map(|r| (1..=4).map(move |l| (r, l))).chain([(50, 1), (1, 50)]).collect();
    let grid22: Vec<(u32, u32)> = vec![(1, 1), (2, 1), (1, 2), (2, 2), (3, 1), (1, 3)];
    let bases_all = [0, D, W, NW, I, E, X, E | X, D | W | S];
    let units: Vec<&str> = vec!["a\u{1f3fb}", "\u{1f1e9}\u{1f1ea}", "\u{1100}\u{1161}\u{11a8}", "\u{1f44d}\u{1f3fb}", "a", "\u{301}", "\\", "\u{d4e}a", ".\u{1f3fb}", "1\u{e33}"];
    let mut b = vec![];
    if !thorough {
        b.push(Block::new(Universe::new("U_ab3{a,b}", &["a", "b"], 3, 0, true), thr(&[0], &grid22), "r x thresholds {(1,1),(2,1),(1,2),(2,2),(3,1),(1,3)}"));
        let grid_long: Vec<(u32, u32)> = grid22.iter().copied().chain([(1, 4), (2, 3)]).collect();
        b.push(Block::new(u_rep_single(&["a", "b"], 14), thr(&[0], &grid_long), "r x 8 thresholds (every single string to length 14: overlapping and nested repeats with tails)"));
        b.push(Block::new(u_rep_single(&["a", "b"], 10), thr(&[W, I | X], &grid22), "r x {w, i+x} x 6 thresholds"));
        b.push(Block::new(u_rep_single(&["a", "B", "1", "-"], 5), thr(&[I | ND, I | NW, I | NS | D, G | D, E | I], &[(1, 1)]), "r x {i+D, i+W, i+S+d, g+d, e+i} (three settings together)"));
        b.push(Block::new(u_rep_single(&["a", "b", "c"], 6), thr(&[0], &grid22), "r x 6 thresholds"));
        b.push(Block::new(Universe::new("U_pairs{a,b}^<=5", &["a", "b"], 5, 2, false), thr(&[0], &[(1, 1), (2, 1), (1, 2)]), "r x {(1,1),(2,1),(1,2)} (a test case and the same plus a repeated block: optional grouped repetitions)"));
        b.push(Block::new(Universe::new("U_pairs{e9,1f4a9,a}^<=4", &["\u{e9}", "\u{1f4a9}", "a"], 4, 2, false), thr(&[E, E | X], &[(1, 1)]), "r x {e, e+x}"));
        b.push(Block::new(Universe::new("U_abc2{a,b,c}", &["a", "b", "c"], 2, 0, true), thr(&bases_all, &[(1, 1)]), "r x 9 bases"));
        b.push(Block::new(u_prefix_counts(), thr(&[0], &[(1, 1), (2, 1)]), "r x {(1,1),(2,1)}"));
        b.push(Block::new(u_corpus("U_large_rep", verif_seed() + 2, 1_500, &["a", "b"], (6, 14), (4, 12)), thr(&[0], &[(1, 1), (1, 2)]), "r x {(1,1),(1,2)} (large sets rich in repeats; corpus, see C02)"));
        b.push(Block::new(u_prefix_counts_unit(), thr(&[0, X], &[(1, 1), (1, 2)]), "r x {{}, x} x {(1,1),(1,2)}"));
        b.push(Block::new(Universe::new("U_adv(units)", &units, 4, 1, false), thr(&[0, E, W, X, E | X], &[(1, 1), (1, 2)]), "r x {{}, e, w, x, e+x} x {(1,1),(1,2)}"));
        b.push(Block::new(Universe::new("U_adv(A_esc)", A_ESC, 3, 1, false), thr(&[0, E], &[(1, 1)]), "r x {{}, e}"));
        b.push(Block::new(Universe::new("U_a1-{a,1,-}", &["a", "1", "-"], 3, 2, false), thr(&[D | NW, W, D], &[(1, 1)]), "r x {d+W, w, d}"));
        b.push(Block::new(Universe::new("U_tok{\\d,1,\\,d}", &["\\d", "1", "\\", "d"], 3, 2, false), thr(&[D, D | W, NW], &[(1, 1)]), "r x {d, d+w, W}"));
        b.push(Block::new(u_kind_pairs(3, 1, false), thr(&[0, X], &[(1, 1), (1, 2)]), "r x {{}, x} x {(1,1),(1,2)}"));
        b.push(Block::new(u_long_rep(30), thr(&[0, X], &[(1, 1), (1, 2), (2, 1)]), "r x {{}, x} x {(1,1),(1,2),(2,1)}"));
        b.push(Block::new(u_count_gaps(), thr(&[0], &[(1, 1), (2, 1), (3, 1)]), "r x {(1,1),(2,1),(3,1)}"));
        b.push(Block::new(u_long_runs(40), thr(&[0, D, X], &[(1, 1), (1, 2), (3, 1)]), "r x {{}, d, x} x {(1,1),(1,2),(3,1)}"));
        b.push(Block::new(u_long_runs(100), thr(&[0], &[(1, 1)]), "r (every run length up to 100, not only those near powers of two)"));
        b.push(Block::new(u_many(30), thr(&[0, D], &[(1, 1)]), "r x {{}, d}"));
        b.push(Block::new(u_nested_rep(), thr(&[0, X], &[(1, 1)]), "r x {{}, x}"));
        b.push(Block::new(u_long_units(), thr(&[0], &[(1, 1), (2, 1)]), "r x {(1,1),(2,1)}"));
        {
            // two test cases with different heads whose tails print alike but are different labels: the class token \d
            // next to the literal text backslash-d (d + r), four tokens each
            let toks = ["\\d", "1", "a"];
            let tails = words(&toks, 4, false);
            let mut w = vec![];
            for t in tails.iter().filter(|t| t.contains('\\') || t.contains('1')) {
                w.push(format!("x{t}"));
                w.push(format!("y{t}"));
            }
            let mut u = Universe::from_words("U_headtok{x,y}.{\\d,1,a}^<=4, pairs with different heads", w, 2);
            u.sets.retain(|s| s.len() == 2 && u.words[s[0]].chars().next() != u.words[s[1]].chars().next());
            b.push(Block::new(u, thr(&[D], &[(1, 1)]), "r+d"));
        }
        b.push(Block::new(u_prefix_suffix2(4), thr(&[0], &[(1, 1)]), "r"));
        b.push(Block::new(u_rep_single(&["\\d", "1", "d"], 8), thr(&[D], &[(1, 1)]), "r+d (a literal backslash-letter pair and the class token with the same text inside repeated blocks of one test case)"));
        b.push(Block::new(u_rep_single(&["\\s", " ", "s"], 8), thr(&[S], &[(1, 1)]), "r+s"));
        b.push(Block::new(u_feature_rich(), thr(&lattice_all(0, ALL_BITS & !(U | C | R)).iter().map(|c| c.bits).collect::<Vec<u32>>(), &[(1, 1)]), "r x all 4,096 combinations of the other flags"));
        b.push(Block::new(u_kind_triples(), thr(&[0, X], &[(1, 1)]), "r x {{}, x}"));
        b.push(Block::new(u_corpus("U_longstr", verif_seed() + 7, 4_000, &["a", "b", "c"], (1, 1), (40, 90)), thr(&[0], &[(1, 1)]), "r (corpus of long single strings: dozens of repetition ranges each)"));
    } else {
        b.push(Block::new(Universe::new("U_ab3{a,b}", &["a", "b"], 3, 0, true), thr(&[0], &grid44), "r x thresholds 1..=4 x 1..=4 + (50,1),(1,50)"));
        b.push(Block::new(Universe::new("U_ab3{a,b}", &["a", "b"], 3, 0, true), thr(&bases_all, &[(1, 1), (2, 1)]), "r x 9 bases x {(1,1),(2,1)}"));
        b.push(Block::new(u_rep_single(&["a", "b"], 16), thr(&[0], &grid44), "r x 18 thresholds (every single string to length 16)"));
        b.push(Block::new(u_rep_single(&["a", "b", "c"], 10), thr(&[0], &[(1, 1), (1, 2), (1, 3), (2, 2), (1, 4)]), "r x 5 thresholds"));
        b.push(Block::new(u_rep_single(&["a", "b"], 12), thr(&[W, I | X, E], &grid44), "r x {w, i+x, e} x 18 thresholds"));
        b.push(Block::new(u_rep_single(&["a", "b", "c"], 7), thr(&[0, X], &grid44), "r x {{}, x} x 18 thresholds"));
        b.push(Block::new(Universe::new("U_triples{a,b}^<=4", &["a", "b"], 4, 3, false), thr(&[0], &[(1, 1), (2, 1), (1, 2)]), "r x {(1,1),(2,1),(1,2)}"));
        b.push(Block::new(Universe::new("U_pairs{a,b}^<=6", &["a", "b"], 6, 2, false), thr(&[0], &[(1, 1), (2, 2)]), "r x {(1,1),(2,2)}"));
        b.push(Block::new(Universe::new("U_abc2{a,b,c}", &["a", "b", "c"], 2, 0, true), thr(&bases_all, &grid22), "r x 9 bases x 6 thresholds"));
        b.push(Block::new(Universe::new("U_adv(units)", &units, 3, 2, false), thr(&[0, E, W, X, E | X, G], &[(1, 1), (1, 2), (2, 1)]), "r x 6 bases x 3 thresholds"));
        b.push(Block::new(Universe::new("U_adv(units)", &units, 5, 1, false), thr(&[0, E, W, X, E | X, G], &[(1, 1), (1, 2), (2, 1)]), "r x 6 bases x 3 thresholds"));
        b.push(Block::new(Universe::new("U_adv(A_esc)", A_ESC, 2, 2, false), thr(&[0, E], &[(1, 1)]), "r x {{}, e}"));
        b.push(Block::new(Universe::new("U_adv(A_esc)", A_ESC, 4, 1, false), thr(&[0, E], &[(1, 1), (2, 2)]), "r x {{}, e} x {(1,1),(2,2)}"));
        b.push(Block::new(Universe::new("U_a1-{a,1,-}", &["a", "1", "-"], 4, 3, false), thr(&[D | NW, W, D], &[(1, 1)]), "r x {d+W, w, d}"));
        b.push(Block::new(u_prefix_counts(), thr(&[0, X, I], &grid22), "r x {{}, x, i} x 6 thresholds"));
        b.push(Block::new(u_prefix_counts_unit(), thr(&[0, X], &grid22), "r x {{}, x} x 6 thresholds"));
        b.push(Block::new(u_corpus("U_large_rep", verif_seed() + 2, 60_000, &["a", "b"], (6, 14), (4, 12)), thr(&[0], &[(1, 1), (1, 2), (2, 1)]), "r x 3 thresholds (corpus)"));
        b.push(Block::new(u_corpus("U_large_rep3", verif_seed() + 3, 30_000, &["a", "b", "c"], (8, 16), (3, 8)), thr(&[0, W], &[(1, 1)]), "r x {{}, w} (corpus)"));
        b.push(Block::new(Universe::new("U_tok{\\d,1,\\,d}", &["\\d", "1", "\\", "d"], 4, 2, false), thr(&[D, D | W, NW, D | NS], &[(1, 1), (2, 1)]), "r x {d, d+w, W, d+S} x {(1,1),(2,1)}"));
        b.push(Block::new(u_kind_pairs(4, 1, false), thr(&[0, X, E], &[(1, 1), (1, 2)]), "r x {{}, x, e} x {(1,1),(1,2)}"));
        b.push(Block::new(u_long_rep(46), thr(&[0, X, I, W], &grid22), "r x {{}, x, i, w} x 6 thresholds"));
        b.push(Block::new(u_long_runs(140), thr(&[0, X], &[(1, 1), (1, 2), (3, 1)]), "r x {{}, x} x {(1,1),(1,2),(3,1)}"));
        b.push(Block::new(u_long_runs(60), thr(&[D, W, I], &grid22), "r x {d, w, i} x 6 thresholds"));
        b.push(Block::new(u_many(120), thr(&[0, D, X], &[(1, 1), (2, 1)]), "r x {{}, d, x} x {(1,1),(2,1)}"));
        b.push(Block::new(u_nested_rep(), thr(&[0, X, E, I, D, G], &grid22), "r x {{}, x, e, i, d, g} x 6 thresholds"));
        b.push(Block::new(u_kind_triples(), thr(&[0, X, E, I], &[(1, 1), (1, 2)]), "r x {{}, x, e, i} x {(1,1),(1,2)}"));
        b.push(Block::new(u_corpus("U_longstr", verif_seed() + 7, 60_000, &["a", "b", "c"], (1, 1), (40, 90)), thr(&[0], &[(1, 1), (1, 2)]), "r x {(1,1),(1,2)} (corpus of long single strings)"));
        b.push(Block::new(u_corpus("U_longstr2", verif_seed() + 8, 20_000, &["a", "b"], (1, 2), (50, 120)), thr(&[0], &[(1, 1)]), "r (corpus)"));
        b.push(Block::new(u_kind_pairs(2, 3, false), thr(&[0, X], &[(1, 1)]), "r x {{}, x}"));
    }
    if thorough {
        // the thorough space is a superset of the quick one: every quick block first, then the deeper ones
        let mut all = blocks(false);
        all.extend(b);
        return all;
    }
    b
}

pub fn run(ctx: &Ctx) {
    *ctx.run.rule.lock().unwrap() = "repeat-rich universes (every single string over {a,b}^<=n and {a,b,c}^<=n, all subsets of {a,b}^<=3, pairs/triples of longer strings, multi-scalar grapheme units, astral scalars) x repetition thresholds grid x base settings; each case = product exploration of (build with r) against (same build without r); non-trivial as in C01; distinct by hash of (set, both settings)".into();
    sweep(ctx, &blocks(ctx.run.is_thorough()), check_case);
}
