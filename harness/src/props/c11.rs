//! C11 Non-ASCII escaping is complete, well-formed and reversible.
use crate::cfgs::*;
use crate::core::*;
use crate::ev::par_for;
use crate::lang;
use crate::space::*;
use crate::sweep::*;
use serde_json::json;
use std::collections::BTreeMap;

/// Multiset of the non-ASCII scalars a pattern text mentions, literally or as \u{..} (after re-pairing).
fn non_ascii_content(text: &str) -> BTreeMap<u32, usize> {
    let mut m = BTreeMap::new();
    for c in text.chars().filter(|c| !c.is_ascii()) {
        *m.entry(c as u32).or_insert(0) += 1;
    }
    for t in lang::scan_escapes(text) {
        if t.value > 0x7f {
            *m.entry(t.value).or_insert(0) += 1;
        }
    }
    m
}

/// Non-ASCII scalars strictly inside a bracketed-class range `lo-hi` of a pattern: they are denoted without
/// being written. With escaping every grapheme is a multi-character token, so no class (hence no range) is formed
/// and the same scalars are written out one by one; the comparison below has to count them on the plain side.
fn class_range_interiors(text: &str, m: &mut BTreeMap<u32, usize>) {
    use regex_syntax::ast::{self, Ast, ClassSet, ClassSetItem};
    fn item(i: &ClassSetItem, m: &mut BTreeMap<u32, usize>) {
        match i {
            ClassSetItem::Range(r) => {
                for v in (r.start.c as u32 + 1)..(r.end.c as u32) {
                    if v > 0x7f && char::from_u32(v).is_some() {
                        *m.entry(v).or_insert(0) += 1;
                    }
                }
            }
            ClassSetItem::Bracketed(b) => set(&b.kind, m),
            ClassSetItem::Union(u) => u.items.iter().for_each(|x| item(x, m)),
            _ => {}
        }
    }
    fn set(s: &ClassSet, m: &mut BTreeMap<u32, usize>) {
        match s {
            ClassSet::Item(i) => item(i, m),
            ClassSet::BinaryOp(o) => {
                set(&o.lhs, m);
                set(&o.rhs, m);
            }
        }
    }
    fn walk(a: &Ast, m: &mut BTreeMap<u32, usize>) {
        match a {
            Ast::ClassBracketed(b) => set(&b.kind, m),
            Ast::Repetition(r) => walk(&r.ast, m),
            Ast::Group(g) => walk(&g.ast, m),
            Ast::Alternation(x) => x.asts.iter().for_each(|y| walk(y, m)),
            Ast::Concat(x) => x.asts.iter().for_each(|y| walk(y, m)),
            _ => {}
        }
    }
    if let Ok(a) = ast::parse::ParserBuilder::new().nest_limit(5000).build().parse(text) {
        walk(&a, m);
    }
}

pub fn check_case(ctx: &Ctx, tcs: &[String], cfg: &Cfg) {
    // cfg has E (and maybe U); compare against the same settings without them
    let plain_cfg = cfg.without(E | U);
    let Some((out, plain_out)) = check_diff(ctx, "C11", tcs, cfg, &plain_cfg, "escaping") else { return };
    let flags = cfg.flag_names().join(",");
    let out_nc = if cfg.has(C) { lang::strip_sgr(&out) } else { out.clone() };
    if let Some(c) = out_nc.chars().find(|c| !c.is_ascii()) {
        return crate::findings::report(ctx, viol("C11", "structure", format!("non-ascii-in-output flags={flags}"), tcs, cfg, &out, json!({"scalar": format!("U+{:04X}", c as u32)})));
    }
    let toks = lang::scan_escapes(&out_nc);
    if cfg.has(U) {
        if let Some(t) = toks.iter().find(|t| t.value >= 0x10000) {
            return crate::findings::report(ctx, viol("C11", "structure", format!("astral-not-converted-to-surrogates flags={flags}"), tcs, cfg, &out, json!({"escape": t.digits})));
        }
    } else if let Some(t) = toks.iter().find(|t| (0xD800..0xE000).contains(&t.value)) {
        return crate::findings::report(ctx, viol("C11", "structure", format!("surrogate-escape-without-u flags={flags}"), tcs, cfg, &out, json!({"escape": t.digits})));
    }
    let repaired = match lang::repair_surrogates(&out_nc) {
        Ok(r) => r,
        Err(e) => return crate::findings::report(ctx, viol("C11", "structure", format!("ill-formed-surrogates flags={flags}"), tcs, cfg, &out, json!({"error": e}))),
    };
    let plain_nc = if cfg.has(C) { lang::strip_sgr(&plain_out) } else { plain_out.clone() };
    let (a, mut b) = (non_ascii_content(&repaired), non_ascii_content(&plain_nc));
    class_range_interiors(&plain_nc, &mut b);
    if a != b {
        return crate::findings::report(ctx, viol("C11", "structure", format!("escape-multiset-mismatch flags={flags}"), tcs, cfg, &out,
            json!({"escaped": a.iter().map(|(k, v)| format!("U+{k:04X}x{v}")).collect::<Vec<_>>(), "unescaped": b.iter().map(|(k, v)| format!("U+{k:04X}x{v}")).collect::<Vec<_>>(), "unescaped_output": plain_out})));
    }
    // textual decoding of the escapes gives a pattern with the same language as the unescaped build
    if let Ok(dec) = lang::decode_escapes_opt(&repaired, cfg.has(X)) {
        match (full_hir(&dec, cfg), full_hir(&plain_nc, &plain_cfg)) {
            (Ok(hd), Ok(hp)) => match leq(&ctx.run, &hd, &hp) {
                Ok(None) => {}
                Ok(Some(d)) => crate::findings::report(ctx, viol("C11", "lang-diff", format!("decoded-differs flags={flags}"), tcs, cfg, &out, diff_detail(&d, "decoded", "unescaped"))),
                Err(e) => ctx.run.machinery_error(e),
            },
            (Err(e), _) => crate::findings::report(ctx, viol("C11", "invalid", format!("decoded-invalid flags={flags}"), tcs, cfg, &out, json!({"decoded": dec, "error": e}))),
            _ => {}
        }
    }
}

fn esc(bases: &[u32]) -> Vec<Cfg> {
    let mut v = vec![];
    for b in bases {
        v.push(Cfg::new(b | E));
        v.push(Cfg::new(b | E | U));
    }
    v
}

pub fn blocks(thorough: bool) -> Vec<Block> {
    let bases8 = [0, R, X, I, D, NW, G, R | X];
    let mix: Vec<&str> = A_ESC.iter().copied().chain(["a", "\u{301}"]).collect();
    let mut b = vec![];
    if !thorough {
        b.push(Block::new(Universe::new("U_adv(A_esc)", A_ESC, 2, 2, true), esc(&bases8), "{e, e+u} x 8 bases"));
        b.push(Block::new(Universe::new("U_adv(A_esc)", A_ESC, 3, 1, false), esc(&[0, R, R | X]), "{e, e+u} x {{}, r, r+x}"));
        b.push(Block::new(Universe::new("U_adv(A_esc+a+U+0301)", &mix, 2, 2, true), esc(&[0, R]), "{e, e+u} x {{}, r}"));
        b.push(Block::new(Universe::new("U_adv(A_gc)", A_GC, 2, 2, true), esc(&[0, R]), "{e, e+u} x {{}, r}"));
        b.push(Block::new(crate::props::c05::u_rep_single(&["\u{e9}", "\u{1f4a9}", "a"], 6), esc(&[R, R | X]), "{e, e+u} x {r, r+x}"));
        b.push(Block::new(crate::props::c05::u_rep_single(&["\u{10000}", "\u{10ffff}", "\u{ffff}"], 5), esc(&[R]), "{e, e+u} x r"));
        b.push(Block::new(Universe::new("U_pairs{e9,1f4a9,a}^<=4", &["\u{e9}", "\u{1f4a9}", "a"], 4, 2, false), esc(&[R, R | X]), "{e, e+u} x {r, r+x}"));
        b.push(Block::new(crate::props::c05::u_rep_single(&["1", "\u{20ac}", " ", "\u{1f4a9}"], 6), esc(&[R | D, R | S, R | NW, R | D | I]), "{e, e+u} x {r+d, r+s, r+W, r+d+i} (class tokens and non-ASCII characters in one repeated unit)"));
        b.push(Block::new(u_kind_pairs(2, 2, false), esc(&[0]), "{e, e+u}"));
        b.push(Block::new(u_runs(), esc(&[0, X, I]), "{e, e+u} x {{}, x, i}"));
        b.push(Block::new(u_kind_triples(), esc(&[0, X]), "{e, e+u} x {{}, x}"));
        b.push(Block::new(u_nested_rep(), esc(&[R]), "{e, e+u} x r"));
        b.push(Block::new(Universe::new("U_adv(cluster units)", &["\u{d4e}a", ".\u{1f3fb}", "1\u{e33}", "a", "\u{111c2}-"], 4, 1, false), esc(&[R, 0]), "{e, e+u} x {r, {}}"));
        b.push(Block::new(u_feature_rich(), esc(&lattice_all(0, ALL_BITS & !(U | C | E)).iter().map(|c| c.bits).collect::<Vec<u32>>()), "{e, e+u} x all 4,096 combinations of the other flags"));
    } else {
        b.push(Block::new(crate::props::c05::u_rep_single(&["1", "\u{20ac}", " ", "\u{1f4a9}"], 7), esc(&[R | D, R | S, R | NW, R | D | I, R | W | X]), "{e, e+u} x 5 bases"));
        b.push(Block::new(crate::props::c05::u_rep_single(&["\u{e9}", "\u{1f4a9}", "a"], 8), esc(&[R, R | X, R | I, R | G]), "{e, e+u} x {r, r+x, r+i, r+g}"));
        b.push(Block::new(crate::props::c05::u_rep_single(&["\u{10000}", "\u{10ffff}", "\u{ffff}", "\u{80}"], 6), esc(&[R, R | X]), "{e, e+u} x {r, r+x}"));
        b.push(Block::new(Universe::new("U_pairs{e9,1f4a9,a}^<=4", &["\u{e9}", "\u{1f4a9}", "a"], 4, 2, false), esc(&[R]), "{e, e+u} x r"));
        b.push(Block::new(Universe::new("U_adv(A_esc)", A_ESC, 2, 2, true), esc(&bases8), "{e, e+u} x 8 bases"));
        b.push(Block::new(Universe::new("U_adv(A_esc)", A_ESC, 3, 1, false), esc(&bases8), "{e, e+u} x 8 bases"));
        b.push(Block::new(Universe::new("U_adv(A_esc)", A_ESC, 2, 3, false), esc(&[0, R]), "{e, e+u} x {{}, r}"));
        b.push(Block::new(Universe::new("U_adv(A_esc+a+U+0301)", &mix, 2, 2, true), esc(&bases8), "{e, e+u} x 8 bases"));
        b.push(Block::new(Universe::new("U_adv(A_gc)", A_GC, 2, 2, true), esc(&bases8), "{e, e+u} x 8 bases"));
        b.push(Block::new(Universe::new("U_adv(A_gc)", A_GC, 3, 1, false), esc(&[0, R, X]), "{e, e+u} x {{}, r, x}"));
        b.push(Block::new(Universe::new("U_adv(A_ws)", A_WS, 2, 2, true), esc(&[0, X]), "{e, e+u} x {{}, x}"));
        b.push(Block::new(u_kind_pairs(2, 3, false), esc(&[0, X]), "{e, e+u} x {{}, x}"));
        b.push(Block::new(u_kind_pairs(3, 1, false), esc(&bases8), "{e, e+u} x 8 bases"));
        b.push(Block::new(u_runs(), esc(&bases8), "{e, e+u} x 8 bases"));
        b.push(Block::new(u_kind_triples(), esc(&bases8), "{e, e+u} x 8 bases"));
    }
    if thorough {
        // the thorough space is a superset of the quick one: every quick block first, then the deeper ones
        let mut all = blocks(false);
        all.extend(b);
        return all;
    }
    b
}

pub fn run(ctx: &Ctx) {
    let thorough = ctx.run.is_thorough();
    *ctx.run.rule.lock().unwrap() = "universes over the escape-width boundary scalars (U+007F/80, U+00E9, U+0100, U+0FFF/1000, U+FFFF/10000, U+FFFFF/100000, U+10FFFF, U+1F4A9), combining sequences and grapheme clusters x {e, e+u} x base settings; scalar sweep with {e, e+u} (quick: slice around every boundary; thorough: all scalars); per case: ASCII-only, escape multiset = non-ASCII content of the unescaped build, surrogate well-formedness, product exploration of the escaped build (surrogates re-paired) against the unescaped build and of the textually decoded pattern; non-trivial as in C01 (every case contains a non-ASCII or boundary scalar); distinct by hash".into();
    sweep(ctx, &blocks(thorough), check_case);
    // the escaping setter called on a builder that has ALREADY been built: the statement "with escaping enabled the
    // output is pure ASCII ..." is about the builder's settings, whenever they were made
    {
        let u = Universe::new("U_adv(A_esc)", A_ESC, 2, 1, false);
        let bad = std::sync::atomic::AtomicU64::new(0);
        par_for(u.len(), |i| {
            let t = u.set(i);
            for (first, second) in [(None, false), (None, true), (Some(false), true), (Some(true), false)] {
                ctx.run.eval();
                let tt = t.clone();
                let got = std::panic::catch_unwind(move || {
                    let mut b = grex::RegExpBuilder::from(&tt);
                    if let Some(f) = first {
                        b.with_escaping_of_non_ascii_chars(f);
                    }
                    let _ = b.build();
                    b.with_escaping_of_non_ascii_chars(second);
                    b.build()
                });
                let want = Cfg::new(if second { E | U } else { E }).build(&t);
                if let (Ok(g), Ok(w)) = (got, want) {
                    if g != w {
                        bad.fetch_add(1, std::sync::atomic::Ordering::Relaxed);
                        crate::findings::report(ctx, viol("C11", "string", format!("escaping-set-after-a-build-not-honoured surrogates={second}"), &t, &Cfg::new(if second { E | U } else { E }), &g, json!({"expected": w, "history": [format!("escape({:?})", first), "build".to_string(), format!("escape({second})"), "build".to_string()]})));
                    }
                }
            }
        });
        ctx.run.space(json!({"universe": u.name, "sets": u.len(), "settings": "histories [escape(a)?, build, escape(b), build] for a in {none, false, true}, b != a", "cases": u.len() * 4}));
    }
    let list = crate::props::scalar_slice(thorough, &ctx.k);
    let cfgs = [Cfg::new(E), Cfg::new(E | U)];
    par_for(list.len(), |i| {
        let tcs = vec![list[i].to_string()];
        for c in &cfgs {
            check_case(ctx, &tcs, c);
        }
    });
    ctx.run.space(json!({"universe": if thorough {"U_scalar (all scalars)"} else {"U_scalar slice"}, "sets": list.len(), "settings": "e, e+u", "cases": list.len() * 2}));
}
