//! C12 The CLI is a faithful front end of the library on every input channel.
use crate::cfgs::*;
use crate::core::*;
use crate::ev::{hash_case, par_for};
use grex::RegExpBuilder;
use serde_json::json;
use std::io::Write;
use std::process::{Command, Stdio};
use std::sync::atomic::{AtomicU64, Ordering};

/// The 16 boolean CLI flags and the settings bits each stands for.
pub const CLI_FLAGS: [(&str, u32); 16] = [
    ("--digits", D), ("--non-digits", ND), ("--spaces", S), ("--non-spaces", NS), ("--words", W), ("--non-words", NW),
    ("--escape", E), ("--with-surrogates", U), ("--repetitions", R), ("--no-start-anchor", NA), ("--no-end-anchor", NE),
    ("--no-anchors", NA | NE), ("--verbose", X), ("--colorize", C), ("--ignore-case", I), ("--capture-groups", G),
];
const SHORT: [(&str, &str); 12] = [
    ("--digits", "-d"), ("--non-digits", "-D"), ("--spaces", "-s"), ("--non-spaces", "-S"), ("--words", "-w"), ("--non-words", "-W"),
    ("--escape", "-e"), ("--repetitions", "-r"), ("--verbose", "-x"), ("--colorize", "-c"), ("--ignore-case", "-i"), ("--capture-groups", "-g"),
];

#[derive(Clone, Copy, PartialEq, Debug)]
pub enum Channel {
    Args,
    File,
    Stdin,
    FileFromStdin,
}

struct Out {
    code: Option<i32>,
    stdout: String,
    stderr: String,
}

fn run_cli(bin: &str, args: &[String], stdin: Option<&[u8]>) -> Result<Out, String> {
    run_cli_env(bin, args, stdin, &[], false, None)
}

/// `env`: variables to set (Some) or remove (None); `clear`: start from an empty environment;
/// `stdin_file`: connect stdin to this regular file instead of a pipe.
fn run_cli_env(bin: &str, args: &[String], stdin: Option<&[u8]>, env: &[(&str, Option<&str>)], clear: bool, stdin_file: Option<&str>) -> Result<Out, String> {
    let mut cmd = Command::new(bin);
    cmd.args(args).stdout(Stdio::piped()).stderr(Stdio::piped()).env_remove("RUST_BACKTRACE");
    if clear {
        cmd.env_clear();
    }
    for (k, v) in env {
        match v {
            Some(v) => cmd.env(k, v),
            None => cmd.env_remove(k),
        };
    }
    if let Some(f) = stdin_file {
        cmd.stdin(Stdio::from(std::fs::File::open(f).map_err(|e| format!("open {f}: {e}"))?));
    } else {
        cmd.stdin(if stdin.is_some() { Stdio::piped() } else { Stdio::null() });
    }
    let mut child = cmd.spawn().map_err(|e| format!("spawn {bin}: {e}"))?;
    if stdin_file.is_none() {
        if let Some(data) = stdin {
            let mut si = child.stdin.take().unwrap();
            let _ = si.write_all(data);
            drop(si);
        }
    }
    let o = child.wait_with_output().map_err(|e| format!("wait: {e}"))?;
    Ok(Out { code: o.status.code(), stdout: String::from_utf8_lossy(&o.stdout).to_string(), stderr: String::from_utf8_lossy(&o.stderr).to_string() })
}

/// Numeric options x channels: every threshold pair of a small grid, in three spellings of the number, on all four
/// channels, with inputs whose longest test case is exactly / just above / just below a minimal qualifying repetition.
fn thresholds_on_channels(ctx: &Ctx, bin: &str, dir: &str, thorough: bool) {
    let run = &ctx.run;
    let s = |v: &[&str]| v.iter().map(|x| x.to_string()).collect::<Vec<String>>();
    let inputs: Vec<Vec<String>> = vec![s(&["aaa", "b"]), s(&["aa", "b"]), s(&["aaaa", "b"]), s(&["abab", "c"]), s(&["ababab"]), s(&["abcabc", "abc"]), s(&["aaaaaaaa", "abababab", "xyzxyz"])];
    let grid: Vec<(u32, u32)> = if thorough { (1..=4).flat_map(|r| (1..=4).map(move |l| (r, l))).collect() } else { vec![(1, 1), (2, 1), (1, 2), (2, 2), (3, 1), (1, 3)] };
    let spell = |n: u32, k: usize| -> String {
        match k % 3 {
            0 => n.to_string(),
            1 => format!("+{n}"),
            _ => format!("00{n}"),
        }
    };
    let flagsets: Vec<(Vec<&str>, u32)> = vec![(vec!["-r"], R), (vec!["-r", "-x"], R | X), (vec!["--repetitions", "-i"], R | I), (vec![], 0)];
    let jobs: Vec<(usize, usize, usize)> = (0..inputs.len()).flat_map(|i| (0..grid.len()).flat_map(move |g| (0..4).map(move |f| (i, g, f)))).collect();
    let n = AtomicU64::new(0);
    par_for(jobs.len(), |j| {
        let (i, g, f) = jobs[j];
        let tcs = &inputs[i];
        let (r, l) = grid[g];
        let cfg = Cfg::with(flagsets[f].1, r, l);
        let Ok(expect) = cfg.build(tcs) else { return };
        for (c, ch) in [Channel::Args, Channel::File, Channel::Stdin, Channel::FileFromStdin].iter().enumerate() {
            let mut args: Vec<String> = flagsets[f].0.iter().map(|x| x.to_string()).collect();
            // two option syntaxes: `--opt value` and `--opt=value`
            if (j + c) % 2 == 0 {
                args.push("--min-repetitions".into());
                args.push(spell(r, j + c));
                args.push(format!("--min-substring-length={}", spell(l, j + c + 1)));
            } else {
                args.push(format!("--min-repetitions={}", spell(r, j + c)));
                args.push("--min-substring-length".into());
                args.push(spell(l, j + c + 1));
            }
            let path = format!("{dir}/thr_{j}_{c}.txt");
            let crlf = (j + c) % 4 == 3;
            let stdin: Option<Vec<u8>> = match ch {
                Channel::Args => {
                    args.push("--".into());
                    args.extend(tcs.iter().cloned());
                    None
                }
                Channel::File => {
                    std::fs::write(&path, file_bytes(tcs, crlf, true)).unwrap();
                    args.extend(["-f".to_string(), path.clone()]);
                    None
                }
                Channel::Stdin => {
                    args.push("-".into());
                    Some(file_bytes(tcs, crlf, j % 2 == 0))
                }
                Channel::FileFromStdin => {
                    std::fs::write(&path, file_bytes(tcs, crlf, true)).unwrap();
                    args.extend(["-f".to_string(), "-".to_string()]);
                    Some(format!("{path}\n").into_bytes())
                }
            };
            run.eval();
            n.fetch_add(1, Ordering::Relaxed);
            run.mark_nontrivial(hash_case(tcs, &cfg) ^ (c as u64 * 131 + 17));
            match run_cli(bin, &args, stdin.as_deref()) {
                Err(e) => run.machinery_error(e),
                Ok(o) => {
                    if o.code != Some(0) || o.stdout != format!("{expect}\n") || !o.stderr.is_empty() {
                        run.violation(viol("C12", "cli", format!("cli-differs-from-library thresholds channel={:?}", ch), tcs, &cfg, &o.stdout,
                            json!({"args": args, "channel": format!("{:?}", ch), "exit": o.code, "stderr": o.stderr.chars().take(300).collect::<String>(), "expected_stdout": format!("{expect}\n")})));
                    }
                }
            }
            let _ = std::fs::remove_file(&path);
        }
    });
    run.space(json!({"engine": "numeric options x channels", "inputs": inputs.len(), "thresholds": format!("{:?}", grid), "number_spellings": ["n", "+n", "00n"], "option_syntax": ["--opt value", "--opt=value"],
        "flag_sets": ["-r", "-r -x", "--repetitions -i", "(none: thresholds without -r)"], "channels": 4, "runs": n.load(Ordering::Relaxed)}));
}

/// Process environment, option placement and the kind of file descriptor behind stdin must not matter.
fn variants(ctx: &Ctx, bin: &str, dir: &str, thorough: bool) {
    let run = &ctx.run;
    let s = |v: &[&str]| v.iter().map(|x| x.to_string()).collect::<Vec<String>>();
    let inputs: Vec<Vec<String>> = vec![s(&["ab", "abb", "a", "AB", "Ab1 #"]), s(&["I\u{130} 36 \u{1f4a9}\u{1f4a9}", "i\u{131}"])];
    let envs: Vec<(&str, Vec<(&str, Option<&str>)>, bool)> = vec![
        ("NO_COLOR=1", vec![("NO_COLOR", Some("1"))], false),
        ("TERM=dumb", vec![("TERM", Some("dumb"))], false),
        ("TERM unset", vec![("TERM", None)], false),
        ("LANG=C LC_ALL=C", vec![("LANG", Some("C")), ("LC_ALL", Some("C"))], false),
        ("LC_ALL=tr_TR.UTF-8", vec![("LC_ALL", Some("tr_TR.UTF-8")), ("LANG", Some("tr_TR.UTF-8"))], false),
        ("COLUMNS=10", vec![("COLUMNS", Some("10"))], false),
        ("CLICOLOR=0", vec![("CLICOLOR", Some("0"))], false),
        ("CLICOLOR_FORCE=1", vec![("CLICOLOR_FORCE", Some("1"))], false),
        ("HOME=/nonexistent", vec![("HOME", Some("/nonexistent"))], false),
        ("empty environment", vec![], true),
    ];
    let nflags = CLI_FLAGS.len() as u32;
    let subsets: Vec<u32> = (0..(1u32 << nflags)).filter(|x| x.count_ones() <= if thorough { 2 } else { 1 }).chain([(1 << 12) | (1 << 13), (1 << 13) | (1 << 8), (1 << 13) | (1 << 6)]).collect();
    let n = std::sync::atomic::AtomicU64::new(0);
    par_for(subsets.len() * inputs.len(), |j| {
        let sub = subsets[j / inputs.len()];
        let tcs = &inputs[j % inputs.len()];
        let mut bits = 0;
        let mut flags: Vec<String> = vec![];
        for (i, (name, b)) in CLI_FLAGS.iter().enumerate() {
            if sub & (1 << i) != 0 {
                bits |= b;
                flags.push(name.to_string());
            }
        }
        if bits & U != 0 && bits & E == 0 {
            return;
        }
        let cfg = Cfg::new(bits);
        let Ok(expect) = cfg.build(tcs) else { return };
        let check = |what: String, o: Result<Out, String>, args: &[String]| {
            run.eval();
            n.fetch_add(1, Ordering::Relaxed);
            run.mark_nontrivial(hash_case(&[what.clone()], &cfg) ^ hash_case(tcs, &cfg));
            match o {
                Err(e) => run.machinery_error(e),
                Ok(o) => {
                    if o.code != Some(0) || o.stdout != format!("{expect}\n") || !o.stderr.is_empty() {
                        run.violation(viol("C12", "cli", format!("cli-differs-from-library variant={}", what.split(':').next().unwrap_or("")), tcs, &cfg, &o.stdout,
                            json!({"variant": what, "args": args, "exit": o.code, "stderr": o.stderr.chars().take(300).collect::<String>(), "expected_stdout": format!("{expect}\n")})));
                    }
                }
            }
        };
        // environment
        let mut args = flags.clone();
        args.push("--".into());
        args.extend(tcs.iter().cloned());
        for (name, env, clear) in &envs {
            check(format!("env:{name}"), run_cli_env(bin, &args, None, env, *clear, None), &args);
        }
        // `allow_hyphen_values` on the positional argument (pinned by the repository's own test
        // `succeeds_with_leading_hyphen`): once the first test case has been seen, everything that follows is a
        // test case, option look-alikes included. Expected = the library's default build over ALL those strings.
        if !flags.is_empty() {
            let mut late: Vec<String> = tcs.clone();
            late.extend(flags.iter().cloned());
            let mut mixed: Vec<String> = vec![tcs[0].clone()];
            mixed.extend(flags.iter().cloned());
            mixed.extend(tcs[1..].iter().cloned());
            for (what, list) in [("placement:option look-alikes after the test cases are test cases", late), ("placement:option look-alikes between the test cases are test cases", mixed)] {
                run.eval();
                n.fetch_add(1, Ordering::Relaxed);
                let Ok(exp) = Cfg::new(0).build(&list) else { continue };
                match run_cli(bin, &list, None) {
                    Err(e) => run.machinery_error(e),
                    Ok(o) => {
                        if o.code != Some(0) || o.stdout != format!("{exp}\n") || !o.stderr.is_empty() {
                            run.violation(viol("C12", "cli", "cli-differs-from-library variant=placement".into(), &list, &Cfg::new(0), &o.stdout,
                                json!({"variant": what, "args": list, "exit": o.code, "stderr": o.stderr.chars().take(300).collect::<String>(), "expected_stdout": format!("{exp}\n")})));
                        }
                    }
                }
            }
        }
        // stdin connected to a regular file instead of a pipe
        let path = format!("{dir}/stdin_{j}.txt");
        std::fs::write(&path, file_bytes(tcs, false, true)).unwrap();
        let mut a2 = flags.clone();
        a2.push("-".into());
        check("stdin:regular file".into(), run_cli_env(bin, &a2, None, &[], false, Some(&path)), &a2);
        // the file name given on stdin from a regular file
        let namefile = format!("{dir}/stdin_name_{j}.txt");
        std::fs::write(&namefile, format!("{path}\n")).unwrap();
        let mut a3 = flags.clone();
        a3.extend(["-f".to_string(), "-".to_string()]);
        check("stdin:file name from a regular file".into(), run_cli_env(bin, &a3, None, &[], false, Some(&namefile)), &a3);
        // a file name that is not a regular file: /dev/stdin fed by a pipe, and a named pipe (reported size 0)
        let mut a4 = flags.clone();
        a4.extend(["-f".to_string(), "/dev/stdin".to_string()]);
        check("file:/dev/stdin fed by a pipe".into(), run_cli(bin, &a4, Some(&file_bytes(tcs, j % 2 == 0, true))), &a4);
        let fifo = format!("{dir}/fifo_{j}");
        if std::process::Command::new("mkfifo").arg(&fifo).status().map(|s| s.success()).unwrap_or(false) {
            let data = file_bytes(tcs, false, j % 2 == 1);
            let fifo_w = fifo.clone();
            let writer = std::thread::spawn(move || {
                if let Ok(mut f) = std::fs::OpenOptions::new().write(true).open(&fifo_w) {
                    let _ = f.write_all(&data);
                }
            });
            let mut a5 = flags.clone();
            a5.extend(["--file".to_string(), fifo.clone()]);
            check("file:named pipe".into(), run_cli(bin, &a5, None), &a5);
            // if the program never opened the pipe the writer is still blocked in open(): release it
            {
                use std::os::unix::fs::OpenOptionsExt;
                let _ = std::fs::OpenOptions::new().read(true).custom_flags(0o4000).open(&fifo);
            }
            let _ = writer.join();
            let _ = std::fs::remove_file(&fifo);
        }
        let _ = std::fs::remove_file(&path);
        let _ = std::fs::remove_file(&namefile);
    });
    run.space(json!({"engine": "environment / placement / descriptor variants", "flag_subsets": subsets.len(), "inputs": inputs.len(),
        "environments": envs.iter().map(|e| e.0).collect::<Vec<_>>(), "placements": ["option look-alikes after / between the test cases are test cases themselves (allow_hyphen_values)"],
        "stdin": ["regular file as stdin for -", "regular file as stdin for -f -"], "special_files": ["-f /dev/stdin fed by a pipe", "--file <named pipe>"], "runs": n.load(Ordering::Relaxed)}));
}

fn tmpdir() -> String {
    let d = format!("{}/.cache/c12_tmp_{}", crate::ev::root(), std::process::id());
    let _ = std::fs::create_dir_all(&d);
    d
}

fn file_bytes(lines: &[String], crlf: bool, final_newline: bool) -> Vec<u8> {
    let sep = if crlf { "\r\n" } else { "\n" };
    let mut s = lines.join(sep);
    if final_newline {
        s.push_str(sep);
    }
    s.into_bytes()
}

/// One successful-path case: flag subset (indices into CLI_FLAGS), thresholds, input, channel, line ending.
#[allow(clippy::too_many_arguments)]
fn case(ctx: &Ctx, bin: &str, dir: &str, subset: u32, use_short: bool, thr: (u32, u32), tcs: &[String], ch: Channel, crlf: bool, final_nl: bool, uid: usize) {
    let run = &ctx.run;
    run.eval();
    let mut bits = 0;
    let mut args: Vec<String> = vec![];
    for (i, (name, b)) in CLI_FLAGS.iter().enumerate() {
        if subset & (1 << i) != 0 {
            bits |= b;
            let short = SHORT.iter().find(|(l, _)| l == name).map(|(_, s)| *s);
            args.push(if use_short && short.is_some() { short.unwrap().to_string() } else { name.to_string() });
        }
    }
    if thr != (1, 1) {
        args.push("--min-repetitions".into());
        args.push(thr.0.to_string());
        args.push(format!("--min-substring-length={}", thr.1));
    }
    let cfg = Cfg::with(bits, thr.0, thr.1);
    run.mark_nontrivial(hash_case(tcs, &cfg) ^ (ch as u64 * 31 + crlf as u64 * 7 + final_nl as u64 * 3 + use_short as u64));
    let clap_rejects = bits & U != 0 && bits & E == 0;
    let path = format!("{dir}/in_{uid}.txt");
    let stdin_data: Option<Vec<u8>> = match ch {
        Channel::Args => {
            args.push("--".into());
            args.extend(tcs.iter().cloned());
            None
        }
        Channel::File => {
            std::fs::write(&path, file_bytes(tcs, crlf, final_nl)).unwrap();
            args.push("-f".into());
            args.push(path.clone());
            None
        }
        Channel::Stdin => {
            args.push("-".into());
            Some(file_bytes(tcs, crlf, final_nl))
        }
        Channel::FileFromStdin => {
            std::fs::write(&path, file_bytes(tcs, crlf, final_nl)).unwrap();
            args.push("--file".into());
            args.push("-".into());
            Some(format!("{path}{}", if !final_nl { "" } else if crlf { "\r\n" } else { "\n" }).into_bytes())
        }
    };
    let o = match run_cli(bin, &args, stdin_data.as_deref()) {
        Ok(o) => o,
        Err(e) => return run.machinery_error(e),
    };
    let describe = json!({"args": args, "channel": format!("{:?}", ch), "crlf": crlf, "final_newline": final_nl, "exit": o.code, "stdout": o.stdout, "stderr": o.stderr.chars().take(300).collect::<String>()});
    if clap_rejects {
        if o.code == Some(0) || o.code == Some(101) || o.code.is_none() || !o.stdout.is_empty() || o.stderr.contains("panicked") {
            run.violation(viol("C12", "cli", "surrogates-without-escape-not-rejected-cleanly".into(), tcs, &cfg, &o.stdout, describe));
        }
        return;
    }
    let expect = match cfg.build(tcs) {
        Ok(e) => e,
        Err(_) => return, // library panic: C07's business
    };
    if o.code != Some(0) || o.stdout != format!("{expect}\n") || !o.stderr.is_empty() {
        let sig = format!("cli-differs-from-library channel={:?} exit={:?}", ch, o.code);
        let mut d = describe;
        d["expected_stdout"] = json!(format!("{expect}\n"));
        run.violation(viol("C12", "cli", sig, tcs, &cfg, &o.stdout, d));
    } else if run.want_sample() && subset.count_ones() >= 2 {
        run.sample(json!({"args": args, "channel": format!("{:?}", ch), "stdout": o.stdout}));
    }
    // library from_file == from(lines)
    if ch == Channel::File {
        run.eval();
        let p = path.clone();
        let lib = std::panic::catch_unwind(move || {
            let mut b = RegExpBuilder::from_file(p);
            cfg.apply(&mut b);
            b.build()
        })
        .map_err(panic_msg);
        if lib.as_deref().ok() != Some(expect.as_str()) {
            run.violation(viol("C12", "cli", "from_file-differs-from-from(lines)".into(), tcs, &cfg, lib.as_deref().unwrap_or("<panic>"), json!({"expected": expect, "crlf": crlf, "final_newline": final_nl})));
        }
    }
    let _ = std::fs::remove_file(&path);
}

fn error_case(ctx: &Ctx, bin: &str, name: &str, args: &[&str], stdin: Option<&[u8]>, own_error: bool) {
    ctx.run.eval();
    ctx.run.mark_nontrivial(hash_case(&[name.to_string()], &Cfg::new(0)));
    let a: Vec<String> = args.iter().map(|s| s.to_string()).collect();
    let o = match run_cli(bin, &a, stdin) {
        Ok(o) => o,
        Err(e) => return ctx.run.machinery_error(e),
    };
    let one_line = o.stderr.trim_end_matches('\n').lines().count() == 1 && !o.stderr.trim().is_empty();
    let bad = o.code == Some(0) || o.code == Some(101) || o.code.is_none() || o.stderr.contains("panicked") || !o.stdout.is_empty() || (own_error && (!one_line || o.code != Some(1)));
    if bad {
        ctx.run.violation(viol("C12", "cli", format!("error-input:{name}"), &[], &Cfg::new(0), &o.stdout, json!({"args": a, "exit": o.code, "stderr": o.stderr.chars().take(400).collect::<String>(), "expected": "non-zero exit other than 101, empty stdout, no panic; one-line message with exit 1 for grex's own errors"})));
    }
}

pub fn run(ctx: &Ctx) {
    let thorough = ctx.run.is_thorough();
    let bin = match std::env::var("VERIF_GREX_BIN") {
        Ok(b) if std::path::Path::new(&b).exists() => b,
        _ => return ctx.run.machinery_error("VERIF_GREX_BIN not set or missing (the check driver builds /repo's grex binary)".into()),
    };
    *ctx.run.rule.lock().unwrap() = "real grex binary built from /repo, one process per case: subsets of the 16 boolean CLI flags (deviation bound per tier; long and short spellings) x thresholds x discriminating inputs x 4 channels (arguments, -f file, - with test cases on stdin, -f - with the file name on stdin) x {LF, CRLF} x {final newline, none}; oracle: stdout = in-process library result for the corresponding settings + newline, exit 0, empty stderr; from_file(path) == from(lines); error inputs end with non-zero exit other than 101, no panic text, empty stdout, one line on stderr; every case is non-trivial (each input is chosen so that each flag changes the output) and distinct by hash of (input, settings, channel, endings)".into();
    let s = |v: &[&str]| v.iter().map(|x| x.to_string()).collect::<Vec<String>>();
    let inputs: Vec<Vec<String>> = vec![
        s(&["I   \u{2665}\u{2665}\u{2665} 36 and \u{663} and y\u{306}y\u{306} and \u{1f4a9}\u{1f4a9}."]),
        s(&["ab", "abb", "a", "AB", "Ab1 #"]),
        s(&["x-y", "a  b", "\\d+", "\u{1f4a9}", "\u{e9}\u{c9}"]),
        s(&["a ", "b "]),
        s(&["\u{130}x", "i\u{307}x", "IX", "ix"]),
        s(&["\u{df}", "SS", "ss", "\u{1e9e}"]),
    ];
    let file_only: Vec<Vec<String>> = vec![s(&["-x", "", "b b", "--"]), s(&["", ""]), s(&["a\tb", " ", "#"]), s(&["x\u{a0}", "y\u{a0}"])];
    let dir = tmpdir();
    let uid = AtomicU64::new(0);
    let nflags = CLI_FLAGS.len() as u32;
    let subsets_le = |k: u32| -> Vec<u32> { (0..(1u32 << nflags)).filter(|s| s.count_ones() <= k).collect() };
    let thr_of = |subset: u32| -> Vec<(u32, u32)> { if subset & (1 << 8) != 0 { vec![(1, 1), (2, 1), (1, 2)] } else { vec![(1, 1)] } };
    // arguments channel
    let arg_subsets = if thorough { subsets_le(16) } else { subsets_le(2) };
    // a bare hyphen is the stdin marker only when it is the single positional argument
    let hyphen_inputs: Vec<Vec<String>> = vec![s(&["-", "a", "b"]), s(&["a", "-"]), s(&["-", "-"])];
    let mut arg_inputs: Vec<&Vec<String>> = if thorough { inputs.iter().take(2).collect() } else { inputs.iter().collect() };
    if !thorough {
        arg_inputs.extend(hyphen_inputs.iter());
    } else {
        arg_inputs.push(&hyphen_inputs[0]);
    }
    par_for(arg_subsets.len(), |i| {
        let sub = arg_subsets[i];
        for (j, inp) in arg_inputs.iter().enumerate() {
            for thr in thr_of(sub) {
                case(ctx, &bin, &dir, sub, (i + j) % 2 == 1, thr, inp, Channel::Args, false, false, uid.fetch_add(1, Ordering::Relaxed) as usize);
            }
        }
    });
    ctx.run.space(json!({"channel": "arguments", "flag_subsets": arg_subsets.len(), "bound": if thorough {"all 2^16 subsets"} else {"<=2 of 16 flags"}, "inputs": arg_inputs.len(), "thresholds": "default, (2,1), (1,2) when --repetitions is set"}));
    // the three other channels x line endings x final newline
    let ch_subsets = if thorough { subsets_le(3) } else { subsets_le(2) };
    let mut ch_inputs: Vec<&Vec<String>> = inputs.iter().collect();
    ch_inputs.extend(file_only.iter());
    par_for(ch_subsets.len() * ch_inputs.len(), |j| {
        let sub = ch_subsets[j / ch_inputs.len()];
        let inp = ch_inputs[j % ch_inputs.len()];
        for ch in [Channel::File, Channel::Stdin, Channel::FileFromStdin] {
            for crlf in [false, true] {
                for fin in [true, false] {
                    // a lone "" line cannot be written without a final newline; str::lines() then yields fewer lines: skip that shape
                    if !fin && inp.last().map_or(false, |l| l.is_empty()) {
                        continue;
                    }
                    case(ctx, &bin, &dir, sub, j % 2 == 0, (1, 1), inp, ch, crlf, fin, uid.fetch_add(1, Ordering::Relaxed) as usize);
                }
            }
        }
    });
    ctx.run.space(json!({"channels": "-f file, - (stdin), -f - (file name on stdin)", "flag_subsets": ch_subsets.len(), "bound": if thorough {"<=3 of 16 flags"} else {"<=2 of 16 flags"}, "inputs": ch_inputs.len(), "endings": "LF/CRLF x final newline/none"}));
    // content features at line boundaries: every feature at the start of the first line, the start of a later
    // line, the end of the first line, the end of the last line, and as a line of its own -- on every channel
    let features: Vec<&str> = vec!["\u{feff}", " ", "\t", "\u{b}", "\u{c}", "\u{85}", "\u{a0}", "\u{2028}", "\u{200b}", "-", "--", "#", "\\", "\"", "'", "\u{1b}", "\u{301}", "\u{7f}", "@", "~"];
    let mut feat_inputs: Vec<Vec<String>> = vec![];
    for x in &features {
        feat_inputs.push(vec![format!("{x}ab"), "cd".to_string()]);
        feat_inputs.push(vec!["ab".to_string(), format!("{x}cd")]);
        feat_inputs.push(vec![format!("ab{x}"), "cd".to_string()]);
        feat_inputs.push(vec!["ab".to_string(), format!("cd{x}")]);
        feat_inputs.push(vec![x.to_string(), "b".to_string()]);
        feat_inputs.push(vec![format!("{x}{x}a{x}")]);
    }
    let feat_subsets = if thorough { subsets_le(2) } else { subsets_le(1) };
    par_for(feat_subsets.len() * feat_inputs.len(), |j| {
        let sub = feat_subsets[j / feat_inputs.len()];
        let inp = &feat_inputs[j % feat_inputs.len()];
        case(ctx, &bin, &dir, sub, j % 2 == 0, (1, 1), inp, Channel::Args, false, false, uid.fetch_add(1, Ordering::Relaxed) as usize);
        for ch in [Channel::File, Channel::Stdin, Channel::FileFromStdin] {
            for crlf in [false, true] {
                for fin in [true, false] {
                    case(ctx, &bin, &dir, sub, j % 2 == 0, (1, 1), inp, ch, crlf, fin, uid.fetch_add(1, Ordering::Relaxed) as usize);
                }
            }
        }
    });
    ctx.run.space(json!({"channels": "arguments, -f file, - (stdin), -f - (file name on stdin)", "flag_subsets": feat_subsets.len(), "bound": if thorough {"<=2 of 16 flags"} else {"<=1 of 16 flags"},
        "inputs": feat_inputs.len(), "universe": "content features at line boundaries: BOM, space, tab, VT, FF, NEL, NBSP, U+2028, ZWSP, -, --, #, backslash, quotes, ESC, combining acute, DEL, @, ~ -- at the start of the first / a later line, the end of the first / last line, as a line of its own, and doubled around a letter", "endings": "LF/CRLF x final newline/none"}));
    variants(ctx, &bin, &dir, thorough);
    thresholds_on_channels(ctx, &bin, &dir, thorough);
    // error inputs
    let empty = format!("{dir}/empty.txt");
    std::fs::write(&empty, b"").unwrap();
    let bad = format!("{dir}/bad.txt");
    std::fs::write(&bad, [0xffu8, 0xfe, b'\n', b'a']).unwrap();
    let bad_late = format!("{dir}/bad_late.txt");
    std::fs::write(&bad_late, b"abc\nabd\nxy\xff\xfez\nlast\n").unwrap();
    let missing = format!("{dir}/does-not-exist.txt");
    error_case(ctx, &bin, "missing-file", &["-f", &missing], None, true);
    error_case(ctx, &bin, "non-utf8-file", &["-f", &bad], None, true);
    error_case(ctx, &bin, "non-utf8-file-on-a-later-line", &["-f", &bad_late], None, true);
    error_case(ctx, &bin, "non-utf8-file-on-a-later-line-with-flags", &["-r", "-f", &bad_late], None, true);
    error_case(ctx, &bin, "non-utf8-stdin-on-a-later-line", &["-"], Some(b"abc\nabd\nxy\xff\xfez\nlast\n"), true);
    error_case(ctx, &bin, "file-name-on-stdin-non-utf8-file-on-a-later-line", &["-f", "-"], Some(bad_late.as_bytes()), true);
    error_case(ctx, &bin, "empty-file", &["-f", &empty], None, true);
    error_case(ctx, &bin, "empty-stdin", &["-"], Some(b""), true);
    error_case(ctx, &bin, "non-utf8-stdin", &["-"], Some(&[0xff, 0xfe, b'\n']), true);
    error_case(ctx, &bin, "file-name-on-stdin-missing", &["-f", "-"], Some(missing.as_bytes()), true);
    error_case(ctx, &bin, "file-name-on-stdin-empty-file", &["-f", "-"], Some(empty.as_bytes()), true);
    error_case(ctx, &bin, "empty-file-with-flags", &["-r", "-x", "-f", &empty], None, true);
    error_case(ctx, &bin, "min-repetitions-zero", &["--min-repetitions", "0", "a"], None, false);
    error_case(ctx, &bin, "min-substring-length-zero", &["--min-substring-length", "0", "a"], None, false);
    error_case(ctx, &bin, "min-repetitions-not-a-number", &["--min-repetitions", "x", "a"], None, false);
    error_case(ctx, &bin, "min-repetitions-negative", &["--min-repetitions=-1", "a"], None, false);
    error_case(ctx, &bin, "min-repetitions-overflow", &["--min-repetitions", "4294967296", "a"], None, false);
    error_case(ctx, &bin, "min-substring-length-overflow", &["--min-substring-length", "99999999999", "a"], None, false);
    // extreme but legal thresholds must behave like the library
    for (r, l) in [(u32::MAX, 1u32), (1, u32::MAX), (7, 3), (100, 100)] {
        ctx.run.eval();
        let tcs: Vec<String> = vec!["aaaaaaaa".to_string(), "abababab".to_string(), "xyzxyz".to_string()];
        let cfg = Cfg::with(R, r, l);
        let args: Vec<String> = vec!["-r".into(), format!("--min-repetitions={r}"), "--min-substring-length".into(), l.to_string(), "--".into(), tcs[0].clone(), tcs[1].clone(), tcs[2].clone()];
        ctx.run.mark_nontrivial(hash_case(&tcs, &cfg));
        match (run_cli(&bin, &args, None), cfg.build(&tcs)) {
            (Ok(o), Ok(expect)) => {
                if o.code != Some(0) || o.stdout != format!("{expect}\n") {
                    ctx.run.violation(viol("C12", "cli", "extreme-thresholds-differ-from-library".into(), &tcs, &cfg, &o.stdout, json!({"args": args, "exit": o.code, "stderr": o.stderr.chars().take(300).collect::<String>(), "expected_stdout": format!("{expect}\n")})));
                }
            }
            (Err(e), _) => ctx.run.machinery_error(e),
            _ => {}
        }
    }
    error_case(ctx, &bin, "surrogates-without-escape", &["--with-surrogates", "a"], None, false);
    error_case(ctx, &bin, "no-input", &[], None, false);
    // a blank-only file is not an error: its lines are empty-string test cases
    for (content, lines) in [("\n", vec![""]), ("\n\n", vec!["", ""]), ("\r\n", vec![""])] {
        ctx.run.eval();
        let p = format!("{dir}/blank.txt");
        std::fs::write(&p, content).unwrap();
        let tcs: Vec<String> = lines.iter().map(|x| x.to_string()).collect();
        let expect = Cfg::new(0).build(&tcs).unwrap_or_default();
        match run_cli(&bin, &["-f".to_string(), p.clone()], None) {
            Ok(o) => {
                if o.code != Some(0) || o.stdout != format!("{expect}\n") {
                    ctx.run.violation(viol("C12", "cli", "blank-only-file".into(), &tcs, &Cfg::new(0), &o.stdout, json!({"file_content": content, "exit": o.code, "stderr": o.stderr, "expected_stdout": format!("{expect}\n")})));
                }
            }
            Err(e) => ctx.run.machinery_error(e),
        }
    }
    ctx.run.space(json!({"error_inputs": 20, "blank_only_files": 3, "extreme_threshold_cases": 4}));
    let _ = std::fs::remove_dir_all(&dir);
}
