//! C13 Repetition thresholds are honoured; braces appear only on request.
use crate::cfgs::*;
use crate::core::*;
use crate::ev::hash_case;
use crate::space::*;
use crate::sweep::*;
use regex_syntax::ast::{self, Ast};
use serde_json::json;

/// Minimum match width in scalars.
fn width(a: &Ast) -> usize {
    match a {
        Ast::Empty(_) | Ast::Flags(_) | Ast::Assertion(_) => 0,
        Ast::Literal(_) | Ast::Dot(_) | Ast::ClassUnicode(_) | Ast::ClassPerl(_) | Ast::ClassBracketed(_) => 1,
        Ast::Repetition(r) => {
            let m = match &r.op.kind {
                ast::RepetitionKind::ZeroOrOne | ast::RepetitionKind::ZeroOrMore => 0,
                ast::RepetitionKind::OneOrMore => 1,
                ast::RepetitionKind::Range(ast::RepetitionRange::Exactly(n)) => *n as usize,
                ast::RepetitionKind::Range(ast::RepetitionRange::AtLeast(n)) => *n as usize,
                ast::RepetitionKind::Range(ast::RepetitionRange::Bounded(n, _)) => *n as usize,
            };
            m * width(&r.ast)
        }
        Ast::Group(g) => width(&g.ast),
        Ast::Alternation(a) => a.asts.iter().map(width).min().unwrap_or(0),
        Ast::Concat(c) => c.asts.iter().map(width).sum(),
    }
}

/// (upper bound, operand width) of every counted repetition.
fn counted(a: &Ast, out: &mut Vec<(u32, usize)>) {
    match a {
        Ast::Repetition(r) => {
            if let ast::RepetitionKind::Range(rr) = &r.op.kind {
                let up = match rr {
                    ast::RepetitionRange::Exactly(n) => *n,
                    ast::RepetitionRange::AtLeast(_) => u32::MAX,
                    ast::RepetitionRange::Bounded(_, m) => *m,
                };
                out.push((up, width(&r.ast)));
            }
            counted(&r.ast, out);
        }
        Ast::Group(g) => counted(&g.ast, out),
        Ast::Alternation(x) => x.asts.iter().for_each(|y| counted(y, out)),
        Ast::Concat(x) => x.asts.iter().for_each(|y| counted(y, out)),
        _ => {}
    }
}

pub fn check_case(ctx: &Ctx, tcs: &[String], cfg: &Cfg) {
    let run = &ctx.run;
    run.eval();
    if nontrivial(tcs) {
        run.mark_nontrivial(hash_case(tcs, cfg));
    }
    let out = match cfg.build(tcs) {
        Ok(o) => o,
        Err(m) => return crate::findings::report(ctx, viol("C13", "panic", "panic".into(), tcs, cfg, "", json!({"panic": m}))),
    };
    // thresholds configured before repetition conversion is switched on must be honoured just the same
    if cfg.has(R) && (cfg.minrep, cfg.minlen) != (1, 1) {
        if let Ok(o2) = cfg.build_thresholds_first(tcs) {
            if o2 != out {
                return crate::findings::report(ctx, viol("C13", "structure", "thresholds-set-before-r-not-honoured".into(), tcs, cfg, &o2, json!({"thresholds_first": o2, "flags_first": out})));
            }
        }
    }
    let Ok(text) = prep(&out, cfg) else { return };
    let a = match ast::parse::ParserBuilder::new().nest_limit(100_000).build().parse(&text) {
        Ok(a) => a,
        Err(_) => return, // validity is C07's business
    };
    let mut v = vec![];
    counted(&a, &mut v);
    for (up, w) in &v {
        if !cfg.has(R) {
            return crate::findings::report(ctx, viol("C13", "structure", "braces-without-r".into(), tcs, cfg, &out, json!({"upper": up, "width": w})));
        }
        if *up <= cfg.minrep {
            return crate::findings::report(ctx, viol("C13", "structure", format!("count-not-above-min-repetitions minrep={}", cfg.minrep), tcs, cfg, &out, json!({"upper": up, "min_repetitions": cfg.minrep})));
        }
        if *w < cfg.minlen as usize {
            return crate::findings::report(ctx, viol("C13", "structure", format!("unit-shorter-than-min-substring-length minlen={}", cfg.minlen), tcs, cfg, &out, json!({"unit_width": w, "min_substring_length": cfg.minlen})));
        }
    }
    if !v.is_empty() && run.want_sample() {
        run.sample(case_json(tcs, cfg, &out));
    }
}

fn grid(bases: &[u32], n: u32) -> Vec<Cfg> {
    let mut v = vec![];
    for b in bases {
        for r in 1..=n {
            for l in 1..=n {
                v.push(Cfg::with(*b, r, l));
            }
        }
    }
    v
}

pub fn run(ctx: &Ctx) {
    let thorough = ctx.run.is_thorough();
    *ctx.run.rule.lock().unwrap() = "repeat-rich inputs (every single string over {a,b}^<=n and {a,b,c}^<=n: all unary, periodic and nested-period strings occur; pairs of strings; multi-scalar units) x min_repetitions 1..=6 x min_substring_length 1..=6 x {r, r+w, r+x, r+i, r+e} and the same inputs without r; oracle on the regex-syntax AST: no counted repetition without r; with r every {n}/{m,n} has upper bound > min_repetitions and an operand of minimum width >= min_substring_length; non-trivial as in C01; distinct by hash".into();
    let with_r = [R, R | W, R | X, R | I, R | E];
    let mut blocks = vec![];
    {
        blocks.push(Block::new(crate::props::c05::u_rep_single(&["a", "b"], 12), grid(&[R], 6), "r x 6x6 thresholds"));
        blocks.push(Block::new(crate::props::c05::u_rep_single(&["a", "b"], 8), grid(&[R | W, R | X, R | I, R | E], 4), "{r+w, r+x, r+i, r+e} x 4x4 thresholds"));
        blocks.push(Block::new(crate::props::c05::u_rep_single(&["a", "b", "c"], 6), grid(&[R], 3), "r x 3x3 thresholds"));
        blocks.push(Block::new(Universe::new("U_pairs{a,b}^<=4", &["a", "b"], 4, 2, false), grid(&[R], 3), "r x 3x3 thresholds"));
        blocks.push(Block::new(u_unit_counts(), grid(&[R, R | D, R | I], 3), "{r, r+d, r+i} x 3x3 thresholds"));
        blocks.push(Block::new(crate::props::c05::u_rep_single(&["a", "b"], 9), vec![Cfg::new(0), Cfg::new(W), Cfg::new(X), Cfg::with(0, 3, 3)], "no r: {}, w, x, thresholds (3,3)"));
        blocks.push(Block::new(Universe::new("U_adv(units)", &["a\u{1f3fb}", "\u{1f4a9}", "a", "{", "1"], 5, 1, false), grid(&[R, R | E, R | D], 3), "{r, r+e, r+d} x 3x3"));
        blocks.push(Block::new(u_kind_pairs(3, 1, false), vec![Cfg::new(0), Cfg::new(X), Cfg::new(R), Cfg::with(R, 2, 1), Cfg::with(R, 1, 2)], "{}, x, r, r(2,1), r(1,2)"));
        blocks.push(Block::new(u_long_rep(30), grid(&[R], 3), "r x 3x3 thresholds"));
        blocks.push(Block::new(u_long_runs(100), grid(&[R], 3), "r x 3x3 thresholds"));
        blocks.push(Block::new(u_count_gaps(), grid(&[R], 3), "r x 3x3 thresholds"));
        blocks.push(Block::new(u_nested_rep(), grid(&[R], 3), "r x 3x3 thresholds"));
        blocks.push(Block::new(u_long_units(), grid(&[R], 3), "r x 3x3 thresholds"));
        blocks.push(Block::new(crate::props::c05::u_rep_single(&["a", "b"], 9), grid(&[0, X, I], 3), "NO r: {{}, x, i} x 3x3 thresholds (thresholds alone must not switch the conversion on)"));
        blocks.push(Block::new(u_kind_triples(), vec![Cfg::new(0), Cfg::new(R), Cfg::with(R, 1, 2), Cfg::with(R | X, 2, 1)], "{}, r, r(1,2), r+x(2,1)"));
    }
    if thorough {
        blocks.push(Block::new(crate::props::c05::u_rep_single(&["a", "b"], 14), grid(&[R], 6), "r x 6x6 thresholds"));
        blocks.push(Block::new(crate::props::c05::u_rep_single(&["a", "b"], 12), grid(&with_r, 6), "5 bases x 6x6 thresholds"));
        blocks.push(Block::new(crate::props::c05::u_rep_single(&["a", "b", "c"], 7), grid(&with_r, 4), "5 bases x 4x4 thresholds"));
        blocks.push(Block::new(Universe::new("U_pairs{a,b}^<=5", &["a", "b"], 5, 2, false), grid(&[R], 4), "r x 4x4 thresholds"));
        blocks.push(Block::new(u_unit_counts(), grid(&[R, R | D, R | I, R | X], 4), "4 bases x 4x4 thresholds"));
        blocks.push(Block::new(Universe::new("U_triples{a,b}^<=3", &["a", "b"], 3, 3, false), grid(&[R, R | X], 3), "{r, r+x} x 3x3"));
        blocks.push(Block::new(crate::props::c05::u_rep_single(&["a", "b"], 12), vec![Cfg::new(0), Cfg::new(W), Cfg::new(X), Cfg::with(0, 3, 3), Cfg::new(E)], "no r"));
        blocks.push(Block::new(Universe::new("U_adv(units)", &["a\u{1f3fb}", "\u{1f4a9}", "a", "{", "1"], 6, 1, false), grid(&[R, R | E, R | D, R | X], 4), "4 bases x 4x4"));
        blocks.push(Block::new(u_kind_pairs(4, 1, false), grid(&[R, R | X], 3), "{r, r+x} x 3x3"));
        blocks.push(Block::new(u_count_gaps(), grid(&[R, R | X, R | NE], 5), "{r, r+x, r+ne} x 5x5 thresholds"));
        blocks.push(Block::new(crate::props::c05::u_rep_single(&["a", "b"], 12), grid(&[0, X, I, D, E], 4), "NO r: {{}, x, i, d, e} x 4x4 thresholds"));
        blocks.push(Block::new(u_long_rep(46), grid(&[R, R | I], 4), "{r, r+i} x 4x4 thresholds"));
        blocks.push(Block::new(u_kind_pairs(3, 1, false), vec![Cfg::new(0), Cfg::new(X), Cfg::new(E), Cfg::new(I), Cfg::with(0, 2, 2)], "no r: {}, x, e, i, thresholds (2,2)"));
    }
    sweep(ctx, &blocks, check_case);
    // thresholds given while repetition conversion is still off, a build, then conversion switched on: the second
    // build must honour the thresholds exactly like a builder configured in one go
    {
        let inputs: Vec<Vec<String>> = vec![vec!["aaabbbbbcc".into(), "xyxyxyzzzz".into()], vec!["ababab zzzz".into()], vec!["aabaabaab".into()], vec!["aaaa".into(), "aaaaaa".into(), "b".into()]];
        let mut n = 0;
        for t in &inputs {
            for (m, l) in [(2u32, 1u32), (3, 1), (1, 2), (2, 2), (3, 3), (1, 1)] {
                for first_build in [true, false] {
                    n += 1;
                    ctx.run.eval();
                    let tt = t.clone();
                    let got = std::panic::catch_unwind(move || {
                        let mut b = grex::RegExpBuilder::from(&tt);
                        b.with_minimum_repetitions(m);
                        b.with_minimum_substring_length(l);
                        if first_build {
                            let _ = b.build();
                        }
                        b.with_conversion_of_repetitions();
                        b.build()
                    });
                    let cfg = Cfg::with(R, m, l);
                    if let (Ok(g), Ok(w)) = (got, cfg.build(t)) {
                        if g != w {
                            crate::findings::report(ctx, viol("C13", "string", format!("thresholds-set-before-r-not-honoured after_build={first_build}"), t, &cfg, &g, json!({"expected": w, "history": ["min_repetitions", "min_substring_length", if first_build {"build"} else {"-"}, "with_conversion_of_repetitions", "build"]})));
                        }
                    }
                }
            }
        }
        ctx.run.space(json!({"universe": "4 repeat-rich inputs", "settings": "histories [thresholds, build?, r, build] x 6 threshold pairs", "cases": n}));
    }
}
