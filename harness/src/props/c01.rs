//! C01 Soundness: the pattern compiles and, anchors in place, matches every original test case.
use crate::cfgs::*;
use crate::core::*;
use crate::ev::hash_case;
use crate::lang;
use crate::space::*;
use crate::sweep::*;
use serde_json::json;
use std::sync::atomic::Ordering;

pub const NOT_FOR_REGEX: u32 = U | C;

pub fn check_case(ctx: &Ctx, tcs: &[String], cfg: &Cfg) {
    let run = &ctx.run;
    run.eval();
    if nontrivial(tcs) {
        run.mark_nontrivial(hash_case(tcs, cfg));
    }
    let (out, text, hir) = match build_lang(tcs, cfg) {
        Built::Ok { out, text, hir } => (out, text, hir),
        Built::Panic(m) => {
            let sig = format!("panic:{}", m.chars().take(50).collect::<String>());
            return crate::findings::report(ctx, viol("C01", "panic", sig, tcs, cfg, "", json!({"panic": m})));
        }
        Built::Invalid { out, err } => {
            return crate::findings::report(ctx, viol("C01", "invalid", format!("invalid:{}", err.chars().take(50).collect::<String>()), tcs, cfg, &out, json!({"error": err})));
        }
    };
    // the returned pattern itself parsed (build_lang); compiling it inside the ^(?:..)$ wrapper exercises the
    // same translation and NFA construction, so one compilation per case suffices
    let re = match lang::compile_real(&lang::wrap_text(&text)) {
        Ok(r) => r,
        Err(e) => return crate::findings::report(ctx, viol("C01", "invalid", format!("does-not-compile:{}", e.chars().take(40).collect::<String>()), tcs, cfg, &out, json!({"error": e}))),
    };
    let mut it = lang::Interner::default();
    // a construct the automaton does not model (a word boundary: never emitted by the unchanged tree) leaves the
    // real engine as the only judge for this case -- soundness is defined by that engine anyway
    let nfa = match lang::Nfa::from_hir(&hir, &mut it) {
        Ok(n) => Some(n),
        Err(e) if e.starts_with("unsupported look") => None,
        Err(e) => return run.machinery_error(format!("unsupported HIR for {:?}: {e}", out)),
    };
    for t in tcs {
        let real = re.is_match(t);
        if let Some(nfa) = &nfa {
            let model = nfa.matches(&it, t);
            run.states.fetch_add(t.chars().count() as u64 + 1, Ordering::Relaxed);
            run.transitions.fetch_add(t.chars().count() as u64, Ordering::Relaxed);
            if real != model {
                return run.machinery_error(format!("CONFORMANCE: automaton {} vs regex crate {} for {:?} on {:?}", model, real, text, t));
            }
            run.traces.fetch_add(1, Ordering::Relaxed);
        }
        if !real {
            let sig = format!("test-case-not-matched flags={}", cfg.flag_names().join(","));
            crate::findings::report(ctx, viol("C01", "lang", sig, tcs, cfg, &out, json!({"witness": t, "expected_in_language": true, "in_output": false})));
            return;
        }
    }
    if run.want_sample() {
        run.sample(case_json(tcs, cfg, &out));
    }
}

pub fn blocks(thorough: bool) -> Vec<Block> {
    let free = ALL_BITS & !NOT_FOR_REGEX;
    let mut b = vec![];
    let k1 = lattice_le(0, free, 1);
    let k2 = lattice_le(0, free, 2);
    let k3 = lattice_le(0, free, 3);
    let full = lattice_all(0, free);
    if !thorough {
        b.push(Block::new(Universe::new("U_ab3{a,b}", &["a", "b"], 3, 0, false), k1.clone(), "Lambda<=1 (no u,c)"));
        b.push(Block::new(Universe::new("U_abc2{a,b,c}", &["a", "b", "c"], 2, 3, true), k2.clone(), "Lambda<=2 (no u,c)"));
        b.push(Block::new(Universe::new("U_abc2{a,b,c}", &["a", "b", "c"], 2, 0, false), vec![Cfg::new(0), Cfg::new(R), Cfg::new(NA | NE), Cfg::new(I | X)], "{}, r, na+ne, i+x"));
        for (n, a) in [("A_meta", A_META), ("A_ws", A_WS), ("A_gc", A_GC), ("A_case", A_CASE), ("A_cls", A_CLS), ("A_esc", A_ESC), ("A_sgr", A_SGR)] {
            b.push(Block::new(Universe::new(&format!("U_adv({n})"), a, 1, 2, true), k2.clone(), "Lambda<=2 (no u,c)"));
            b.push(Block::new(Universe::new(&format!("U_adv({n})"), a, 2, 2, false), vec![Cfg::new(0), Cfg::new(R), Cfg::new(X), Cfg::new(I), Cfg::new(E), Cfg::new(NW | D)], "{}, r, x, i, e, W+d"));
        }
        b.push(Block::new(Universe::new("U_adv(A_gc)", A_GC, 3, 1, false), k1.clone(), "Lambda<=1 (no u,c)"));
        b.push(Block::new(u_prefix_counts(), vec![Cfg::new(R), Cfg::new(R | NE)], "r, r+ne"));
        b.push(Block::new(u_corpus("U_large", verif_seed(), 12_000, &["a", "b", "c"], (12, 19), (5, 7)), vec![Cfg::new(0), Cfg::new(R), Cfg::new(NA | NE)], "{}, r, na+ne (tries of 60-130 states)"));
        b.push(Block::new(u_prefix_counts_unit(), vec![Cfg::new(R)], "r"));
        b.push(Block::new(Universe::new("U_adv(A_cons)", A_CONS, 1, 4, false), vec![Cfg::new(0), Cfg::new(I), Cfg::new(X), Cfg::new(G | I)], "{}, i, x, g+i"));
        b.push(Block::new(Universe::new("U_pairs{a,b}^<=5", &["a", "b"], 5, 2, false), vec![Cfg::new(R), Cfg::with(R, 1, 2), Cfg::new(R | E), Cfg::new(R | X)], "r, r(1,2), r+e, r+x"));
        b.push(Block::new(Universe::new("U_adv(A_gcm)", A_GCM, 3, 1, false), k1.clone(), "Lambda<=1 (no u,c)"));
        b.push(Block::new(Universe::new("U_adv(A_gcm)", A_GCM, 2, 2, false), vec![Cfg::new(0), Cfg::new(R), Cfg::new(X)], "{}, r, x"));
        b.push(Block::new(u_kind_pairs(2, 2, false), vec![Cfg::new(0), Cfg::new(X), Cfg::new(R), Cfg::new(I), Cfg::new(E | X | NE)], "{}, x, r, i, e+x+ne"));
        b.push(Block::new(u_runs(), k2.clone(), "Lambda<=2 (no u,c)"));
        b.push(Block::new(u_many(40), vec![Cfg::new(0), Cfg::new(R), Cfg::new(D), Cfg::new(W | R), Cfg::new(NA | NE), Cfg::new(I | X)], "{}, r, d, w+r, na+ne, i+x"));
        b.push(Block::new(u_kind_triples(), vec![Cfg::new(0), Cfg::new(X), Cfg::new(R), Cfg::new(E | X)], "{}, x, r, e+x"));
        b.push(Block::new(u_long_rep(30), vec![Cfg::new(R), Cfg::new(R | NA | NE)], "r, r+na+ne"));
        b.push(Block::new(u_nested_rep(), vec![Cfg::new(R), Cfg::new(R | X)], "r, r+x"));
        b.push(Block::new(u_long_units(), vec![Cfg::new(R), Cfg::with(R, 2, 1)], "r, r(2,1)"));
        b.push(Block::new(u_long_prefix(), vec![Cfg::new(0), Cfg::new(NE), Cfg::new(I)], "{}, ne, i"));
        b.push(Block::new(Universe::new("U_bytes{a,b,U+20AC}", &["a", "b", "\u{20ac}"], 3, 3, false), vec![Cfg::new(0)], "{} (sort order by byte length vs number of graphemes)"));
        b.push(Block::new(Universe::new("U_bytes{a,e9,U+20AC,U+1F600}", &["a", "\u{e9}", "\u{20ac}", "\u{1f600}"], 2, 3, false), vec![Cfg::new(0)], "{} (1-, 2-, 3- and 4-byte characters)"));
        b.push(Block::new(Universe::new("U_adv(cluster units)", &["\u{d4e}a", ".\u{1f3fb}", "1\u{e33}", "a", "\u{111c2}-", "+\u{ff9e}"], 4, 1, false), vec![Cfg::new(R), Cfg::new(R | D), Cfg::new(R | X)], "r, r+d, r+x"));
        b.push(Block::new(u_alias_pairs(), lattice_le(0, CLASS_BITS | R | I, 2), "<=2 of the class flags, r, i"));
        b.push(Block::new(u_long_literal_at(), vec![Cfg::new(X), Cfg::new(0), Cfg::new(X | NA | NE)], "x, {}, x+na+ne"));
        b.push(Block::new(u_prefix_suffix2(4), vec![Cfg::new(D), Cfg::new(R), Cfg::new(W | R)], "d, r, w+r"));
        b.push(Block::new(u_feature_rich(), full.clone(), "Lambda_full (no u,c): all 8,192 combinations"));
        b.push(Block::new(u_long_runs(100), vec![Cfg::new(R), Cfg::new(R | W), Cfg::new(0)], "r, r+w, {}"));
        b.push(Block::new(u_corpus("U_longstr", verif_seed() + 7, 4_000, &["a", "b", "c"], (1, 1), (40, 90)), vec![Cfg::new(R)], "r (corpus of long single strings)"));
    } else {
        b.push(Block::new(Universe::new("U_adv(A_cons)", A_CONS, 1, 5, false), k1.clone(), "Lambda<=1 (no u,c)"));
        b.push(Block::new(Universe::new("U_adv(A_gcm)", A_GCM, 3, 1, false), k3.clone(), "Lambda<=3 (no u,c)"));
        b.push(Block::new(Universe::new("U_adv(A_gcm)", A_GCM, 2, 2, false), k2.clone(), "Lambda<=2 (no u,c)"));
        b.push(Block::new(Universe::new("U_ab3{a,b}", &["a", "b"], 3, 0, false), k2.clone(), "Lambda<=2 (no u,c)"));
        b.push(Block::new(Universe::new("U_abc2{a,b,c}", &["a", "b", "c"], 2, 2, true), full.clone(), "Lambda_full (no u,c)"));
        b.push(Block::new(Universe::new("U_abc2{a,b,c}", &["a", "b", "c"], 2, 0, true), k3.clone(), "Lambda<=3 (no u,c)"));
        for (n, a) in [("A_meta", A_META), ("A_ws", A_WS), ("A_gc", A_GC), ("A_case", A_CASE), ("A_cls", A_CLS), ("A_esc", A_ESC), ("A_sgr", A_SGR)] {
            b.push(Block::new(Universe::new(&format!("U_adv({n})"), a, 2, 2, true), k2.clone(), "Lambda<=2 (no u,c)"));
            b.push(Block::new(Universe::new(&format!("U_adv({n})"), a, 1, 3, true), k3.clone(), "Lambda<=3 (no u,c)"));
        }
        b.push(Block::new(Universe::new("U_adv(A_gc)", A_GC, 3, 1, false), k3.clone(), "Lambda<=3 (no u,c)"));
        b.push(Block::new(Universe::new("U_adv(A_gc)", A_GC, 2, 3, true), vec![Cfg::new(0)], "{}"));
        b.push(Block::new(Universe::new("U_abc3{a,b,c}", &["a", "b", "c"], 3, 6, false), vec![Cfg::new(0)], "{} (sets of up to 6 strings)"));
        b.push(Block::new(Universe::new("U_ab4{a,b}", &["a", "b"], 4, 6, false), vec![Cfg::new(0), Cfg::new(R), Cfg::new(NA | NE)], "{}, r, na+ne"));
        b.push(Block::new(u_kind_pairs(2, 3, false), k1.clone(), "Lambda<=1 (no u,c)"));
        b.push(Block::new(u_kind_pairs(2, 2, true), k2.clone(), "Lambda<=2 (no u,c)"));
        b.push(Block::new(u_kind_pairs(3, 1, false), k2.clone(), "Lambda<=2 (no u,c)"));
        b.push(Block::new(u_runs(), k3.clone(), "Lambda<=3 (no u,c)"));
        b.push(Block::new(u_many(150), k1.clone(), "Lambda<=1 (no u,c)"));
        b.push(Block::new(u_kind_triples(), k2.clone(), "Lambda<=2 (no u,c)"));
    }
    if thorough {
        // the thorough space is a superset of the quick one: every quick block first, then the deeper ones
        let mut all = blocks(false);
        all.extend(b);
        return all;
    }
    b
}

/// Case partners in both list orders (see C04) and prefix pairs with a repeated tail: soundness-level twins of
/// the C04 / C05 universes, membership only.
fn extra(ctx: &Ctx) {
    let pairs = crate::props::c04::case_partner_lists();
    let ci = Cfg::new(I);
    crate::ev::par_for(pairs.len(), |i| check_case(ctx, &pairs[i], &ci));
    ctx.run.space(json!({"universe": "case-partner lists (every scalar with a single-scalar std lower/upper-case partner, both list orders, inside one string, with suffixes)", "sets": pairs.len(), "settings": "i", "cases": pairs.len()}));
}

pub fn run(ctx: &Ctx) {
    *ctx.run.rule.lock().unwrap() = "every non-empty subset (size bound m) of Sigma^<=k for the listed alphabets x every settings value with at most the stated number of flags differing from default (u and c excluded); non-trivial = >=2 members sharing a first or last scalar, or epsilon next to another string, or a repeated substring, or any non-alphanumeric scalar; distinct by hash of (set, settings)".into();
    sweep(ctx, &blocks(ctx.run.is_thorough()), check_case);
    extra(ctx);
    scalars(ctx);
}

/// Every Unicode scalar as a one-character test case (quick: boundary-rich slice; thorough: all).
pub fn scalars(ctx: &Ctx) {
    let thorough = ctx.run.is_thorough();
    let cfgs: Vec<Cfg> = [0, I, E, X, G, R].iter().map(|b| Cfg::new(*b)).collect();
    let list = crate::props::scalar_slice(thorough, &ctx.k);
    crate::ev::par_for(list.len(), |i| {
        let tcs = vec![list[i].to_string()];
        for cfg in &cfgs {
            check_case(ctx, &tcs, cfg);
        }
    });
    ctx.run.space(json!({"universe": if thorough {"U_scalar (all 1,112,064 scalars)"} else {"U_scalar slice: boundaries of all class/case tables +-1, one per 256-block"},
        "sets": list.len(), "settings": "{}, i, e, x, g, r", "settings_count": cfgs.len(), "cases": list.len() * cfgs.len()}));
    {
        // each scalar in contexts cc, ccc, ac, ca, cxcy, xcyc (twice at distance two: a code point that some stage
        // uses as an internal separator or sentinel shows only when it occurs more than once, apart). Thorough: every
        // scalar; quick: every scalar below U+0300 and the boundary slice.
        let cfgs: Vec<Cfg> = if thorough { [0, R, E | R].iter().map(|b| Cfg::new(*b)).collect() } else { vec![Cfg::new(R)] };
        let list: Vec<char> = if thorough { list.clone() } else { (0u32..0x300).filter_map(char::from_u32).chain(list.iter().copied()).collect() };
        crate::ev::par_for(list.len(), |i| {
            let c = list[i];
            for s in [format!("{c}{c}"), format!("{c}{c}{c}"), format!("a{c}"), format!("{c}a"), format!("{c}x{c}y"), format!("x{c}y{c}")] {
                let tcs = vec![s];
                for cfg in &cfgs {
                    check_case(ctx, &tcs, cfg);
                }
            }
        });
        ctx.run.space(json!({"universe": if thorough {"U_scalar_ctx: cc, ccc, ac, ca, cxcy, xcyc for every scalar c"} else {"U_scalar_ctx: cc, ccc, ac, ca, cxcy, xcyc for every scalar below U+0300 and the boundary slice"}, "sets": list.len() * 6, "settings": if thorough {"{}, r, e+r"} else {"r"}, "cases": list.len() * 6 * cfgs.len()}));
    }
}
