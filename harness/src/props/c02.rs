//! C02 Exactness: under default / presentation-neutral settings L(pattern) = set of test cases.
use crate::cfgs::*;
use crate::core::*;
use crate::space::*;
use crate::sweep::*;
use serde_json::json;

pub fn check_case(ctx: &Ctx, tcs: &[String], cfg: &Cfg) {
    check_spec_eq(ctx, "C02", tcs, cfg)
}

pub fn blocks(thorough: bool) -> Vec<Block> {
    let neutral = lattice_all(0, G | X | E | NA | NE);
    let n1 = lattice_le(0, G | X | E | NA | NE, 1);
    let some: Vec<Cfg> = [0, X, G | E, NA | NE, X | G | E | NA | NE].iter().map(|b| Cfg::new(*b)).collect();
    let d32 = "all 32 subsets of {g,x,e,na,ne}";
    let mut b = vec![];
    if !thorough {
        b.push(Block::new(Universe::new("U_ab3{a,b}", &["a", "b"], 3, 0, false), some.clone(), "{}, x, g+e, na+ne, x+g+e+na+ne"));
        b.push(Block::new(Universe::new("U_abc2{a,b,c}", &["a", "b", "c"], 2, 3, true), neutral.clone(), d32));
        b.push(Block::new(Universe::new("U_abc2{a,b,c}", &["a", "b", "c"], 2, 0, false), n1.clone(), "<=1 of {g,x,e,na,ne}"));
        for (n, a) in [("A_meta", A_META), ("A_gc", A_GC), ("A_ws", A_WS), ("A_esc", A_ESC)] {
            b.push(Block::new(Universe::new(&format!("U_adv({n})"), a, 1, 2, true), neutral.clone(), d32));
            b.push(Block::new(Universe::new(&format!("U_adv({n})"), a, 2, 2, false), vec![Cfg::new(0), Cfg::new(X | E)], "{}, x+e"));
        }
        b.push(Block::new(Universe::new("U_abc3{a,b,c}", &["a", "b", "c"], 3, 4, false), vec![Cfg::new(0)], "{} (sets of <= 4 strings of length <= 3 over three letters: every union/factoring shape with a non-topological elimination order)"));
        b.push(Block::new(Universe::new("U_ab4{a,b}", &["a", "b"], 4, 5, false), vec![Cfg::new(0)], "{} (up to 5 strings: optional prefix and suffix around a core plus a string that reorders the elimination)"));
        b.push(Block::new(Universe::new("U_adv(A_cons)", A_CONS, 1, 4, false), vec![Cfg::new(0), Cfg::new(X), Cfg::new(G | E)], "{}, x, g+e"));
        b.push(Block::new(u_full_minus(&["a", "b"], 6, 1), vec![Cfg::new(0)], "{}"));
        b.push(Block::new(u_corpus("U_large", verif_seed(), 12_000, &["a", "b", "c"], (12, 19), (5, 7)), vec![Cfg::new(0)], "{} (tries of 60-130 states)"));
        b.push(Block::new(u_corpus("U_large2", verif_seed() + 1, 6_000, &["a", "b"], (10, 24), (4, 9)), vec![Cfg::new(0)], "{}"));
        b.push(Block::new(Universe::new("U_adv(A_gcm)", A_GCM, 3, 1, false), neutral.clone(), d32));
        b.push(Block::new(Universe::new("U_adv(A_gcm)", A_GCM, 2, 2, false), vec![Cfg::new(0), Cfg::new(X | E)], "{}, x+e"));
        b.push(Block::new(u_kind_pairs(2, 2, false), vec![Cfg::new(0), Cfg::new(X), Cfg::new(X | G | E | NA | NE)], "{}, x, x+g+e+na+ne"));
        b.push(Block::new(u_many(40), some.clone(), "{}, x, g+e, na+ne, x+g+e+na+ne"));
        b.push(Block::new(u_long_prefix(), vec![Cfg::new(0), Cfg::new(NA | NE)], "{}, na+ne"));
        b.push(Block::new(Universe::new("U_bytes{a,b,U+20AC}", &["a", "b", "\u{20ac}"], 3, 3, false), vec![Cfg::new(0)], "{} (sort order by byte length vs number of graphemes)"));
        b.push(Block::new(Universe::new("U_bytes{a,e9,U+20AC,U+1F600}", &["a", "\u{e9}", "\u{20ac}", "\u{1f600}"], 2, 3, false), vec![Cfg::new(0)], "{} (1-, 2-, 3- and 4-byte characters)"));
        b.push(Block::new(u_kind_triples(), vec![Cfg::new(0), Cfg::new(X), Cfg::new(X | G | E | NA | NE)], "{}, x, x+g+e+na+ne"));
        b.push(Block::new(u_runs(), neutral.clone(), d32));
    } else {
        b.push(Block::new(Universe::new("U_adv(A_cons)", A_CONS, 1, 5, false), n1.clone(), "<=1 of {g,x,e,na,ne}"));
        b.push(Block::new(Universe::new("U_adv(A_gcm)", A_GCM, 3, 2, false), vec![Cfg::new(0), Cfg::new(X)], "{}, x"));
        b.push(Block::new(Universe::new("U_adv(A_gcm)", A_GCM, 2, 2, false), neutral.clone(), d32));
        b.push(Block::new(Universe::new("U_ab3{a,b}", &["a", "b"], 3, 0, false), neutral.clone(), d32));
        b.push(Block::new(Universe::new("U_abc2{a,b,c}", &["a", "b", "c"], 2, 0, true), neutral.clone(), d32));
        for (n, a) in [("A_meta", A_META), ("A_gc", A_GC), ("A_ws", A_WS), ("A_esc", A_ESC)] {
            b.push(Block::new(Universe::new(&format!("U_adv({n})"), a, 2, 2, true), neutral.clone(), d32));
        }
        b.push(Block::new(Universe::new("U_ab4{a,b}", &["a", "b"], 4, 4, false), neutral.clone(), d32));
        b.push(Block::new(Universe::new("U_abc3{a,b,c}", &["a", "b", "c"], 3, 4, false), n1.clone(), "<=1 of {g,x,e,na,ne}"));
        b.push(Block::new(Universe::new("U_ab4{a,b}", &["a", "b"], 4, 5, false), vec![Cfg::new(0)], "{}"));
        b.push(Block::new(Universe::new("U_abc3{a,b,c}", &["a", "b", "c"], 3, 5, false), vec![Cfg::new(0)], "{}"));
        b.push(Block::new(Universe::new("U_ab4{a,b}", &["a", "b"], 4, 6, false), vec![Cfg::new(0)], "{}"));
        b.push(Block::new(u_full_minus(&["a", "b"], 6, 2), vec![Cfg::new(0)], "{}"));
        b.push(Block::new(u_corpus("U_large", verif_seed(), 200_000, &["a", "b", "c"], (12, 19), (5, 7)), vec![Cfg::new(0)], "{} (tries of 60-130 states)"));
        b.push(Block::new(u_corpus("U_large2", verif_seed() + 1, 100_000, &["a", "b"], (10, 24), (4, 9)), vec![Cfg::new(0), Cfg::new(NA | NE)], "{}, na+ne"));
        b.push(Block::new(Universe::new("U_adv(A_gc)", A_GC, 2, 3, true), vec![Cfg::new(0)], "{}"));
        b.push(Block::new(Universe::new("U_adv(A_meta)", A_META, 3, 1, false), neutral.clone(), d32));
        b.push(Block::new(u_kind_pairs(2, 3, false), n1.clone(), "<=1 of {g,x,e,na,ne}"));
        b.push(Block::new(u_kind_pairs(2, 2, true), neutral.clone(), d32));
        b.push(Block::new(u_kind_pairs(3, 1, false), neutral.clone(), d32));
        b.push(Block::new(u_many(150), n1.clone(), "<=1 of {g,x,e,na,ne}"));
        b.push(Block::new(u_kind_triples(), neutral.clone(), d32));
        b.push(Block::new(u_runs(), neutral.clone(), d32));
    }
    if thorough {
        // the thorough space is a superset of the quick one: every quick block first, then the deeper ones
        let mut all = blocks(false);
        all.extend(b);
        return all;
    }
    b
}

pub fn run(ctx: &Ctx) {
    *ctx.run.rule.lock().unwrap() = "every non-empty subset (size bound m) of Sigma^<=k for the listed alphabets x every subset of the presentation-neutral flags {g,x,e,na,ne}; for each case the product of the pattern's automaton and the spec automaton is explored completely over an atom alphabet that partitions all 1,112,064 scalars; non-trivial as in C01; distinct by hash of (set, settings)".into();
    sweep(ctx, &blocks(ctx.run.is_thorough()), check_case);
    if ctx.run.is_thorough() {
        let list = crate::props::scalar_slice(true, &ctx.k);
        crate::ev::par_for(list.len(), |i| check_case(ctx, &[list[i].to_string()], &Cfg::new(0)));
        ctx.run.space(json!({"universe": "U_scalar (all scalars)", "sets": list.len(), "settings": "{}", "cases": list.len()}));
    }
}
