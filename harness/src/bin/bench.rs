use std::time::Instant;
fn main() {
    let pats = ["^(?:^\\W\\W$)$", "^(?:^a\\W$)$", "^(?:^\\W\\W\\W\\W$)$", "^(?:^\\w\\d$)$", "^(?:^(?:\\w|a\\W)$)$", "^(?:^ab?$)$", "^(?:(?i)^\\D\\S$)$"];
    for p in pats {
        let n = 300;
        let t = Instant::now();
        for _ in 0..n { let r = regex::RegexBuilder::new(p).build().unwrap(); assert!(r.is_match("\u{1f3fb}\u{1f3fb}") || true); }
        let d1 = t.elapsed() / n;
        let t = Instant::now();
        for _ in 0..n { let r = regex::RegexBuilder::new(p).dfa_size_limit(0).build().unwrap(); assert!(r.is_match("\u{1f3fb}\u{1f3fb}") || true); }
        let d2 = t.elapsed() / n;
        let t = Instant::now();
        for _ in 0..n { let r = regex::RegexBuilder::new(p).build().unwrap(); std::hint::black_box(r); }
        let d3 = t.elapsed() / n;
        println!("{p}: default {:?}  dfa0 {:?} compile-only {:?}", d1, d2, d3);
    }
}
