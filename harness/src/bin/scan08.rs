use vh::cfgs::*;
use vh::space::*;
fn main() {
    let flags = std::env::args().nth(1).unwrap_or("ne".into());
    let cfg = Cfg::new(Cfg::parse_flags(&flags));
    let u = Universe::new("u", &["a", "b"], 3, 0, false);
    let mut n = 0; let mut shown = 0;
    for i in 0..u.len() {
        let t = u.set(i);
        let Ok(out) = cfg.build(&t) else { println!("PANIC {:?}", t); continue };
        let re = vh::lang::compile_real(&out).unwrap();
        for tc in &t {
            let m = re.find(tc).map(|m| (m.start(), m.end()));
            if m != Some((0, tc.len())) {
                n += 1;
                if shown < 12 && t.len() <= 4 { shown += 1; println!("{:?} -> {} : find({:?}) = {:?}", t, out, tc, m); }
                break;
            }
        }
    }
    println!("{} failing sets of {}", n, u.len());
}
