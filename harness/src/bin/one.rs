//! vh-one: build a single case and print the output (debug helper). usage: one <flags> <minrep> <minlen> <tc>...
use vh::cfgs::*;
fn main() {
    let a: Vec<String> = std::env::args().collect();
    let cfg = Cfg::with(Cfg::parse_flags(&a[1]), a[2].parse().unwrap(), a[3].parse().unwrap());
    let tcs: Vec<String> = a[4..].iter().map(|s| unescape(s)).collect();
    match cfg.build(&tcs) {
        Ok(o) => {
            println!("{:?}", o);
            println!("{}", o);
            match vh::lang::compile_real(&o) { Ok(re) => { for t in &tcs { println!("  find({:?}) = {:?}", t, re.find(t).map(|m| (m.start(), m.end()))); } } Err(e) => println!("  DOES NOT COMPILE: {e}") }
        }
        Err(m) => println!("PANIC: {m}"),
    }
}
fn unescape(s: &str) -> String {
    // \u{hex} and \\ in arguments
    let mut out = String::new();
    let mut it = s.chars().peekable();
    while let Some(c) = it.next() {
        if c == '\\' && it.peek() == Some(&'u') {
            it.next(); it.next();
            let mut h = String::new();
            while let Some(&d) = it.peek() { it.next(); if d == '}' { break; } h.push(d); }
            out.push(char::from_u32(u32::from_str_radix(&h, 16).unwrap()).unwrap());
        } else { out.push(c); }
    }
    out
}
