use vh::cfgs::*;
use vh::space::*;
fn main() {
    let a: Vec<String> = std::env::args().collect();
    let sigma: Vec<&str> = a[1].split(',').collect();
    let k: usize = a[2].parse().unwrap();
    let ws = words(&sigma, k, false);
    let found = std::sync::Mutex::new(vec![]);
    let grid = [(1u32, 1u32), (1, 2), (1, 3), (2, 2), (3, 3), (1, 4), (2, 3)];
    vh::ev::par_for(ws.len(), |i| {
        let t = vec![ws[i].clone()];
        for (r, l) in grid {
            let cfg = Cfg::with(R, r, l);
            if let Ok(o) = cfg.build(&t) {
                let ok = vh::lang::compile_real_uncached(&o).map(|re| re.is_match(&t[0])).unwrap_or(false);
                if !ok { found.lock().unwrap().push((t[0].clone(), r, l, o)); }
            }
        }
    });
    let mut f = found.into_inner().unwrap();
    f.sort_by_key(|x| x.0.len());
    println!("{} strings, {} failures", ws.len(), f.len());
    for x in f.iter().take(8) { println!("{:?}", x); }
}
