// dev scan: run C01/C02-style checks over the kind-pair and run universes
use vh::cfgs::*;
use vh::core::*;
use vh::space::*;
fn main() {
    let a: Vec<String> = std::env::args().collect();
    let which = a.get(1).map(|s| s.as_str()).unwrap_or("pairs");
    let k: usize = a.get(2).and_then(|s| s.parse().ok()).unwrap_or(2);
    let m: usize = a.get(3).and_then(|s| s.parse().ok()).unwrap_or(2);
    let flags: Vec<u32> = a.get(4).map(|s| s.split('/').map(Cfg::parse_flags).collect()).unwrap_or(vec![0]);
    let uni = if which == "pairs" { u_kind_pairs(k, m, false) } else { u_runs() };
    println!("{}: {} sets", uni.name, uni.len());
    let ctx = Ctx::new("C02", "quick", "model_checking");
    let t0 = std::time::Instant::now();
    vh::ev::par_for(uni.len(), |i| {
        let tcs = uni.set(i);
        for f in &flags {
            check_spec_eq(&ctx, "C02", &tcs, &Cfg::new(*f));
        }
    });
    println!("done {:.1}s evals={}", t0.elapsed().as_secs_f64(), ctx.run.evals.load(std::sync::atomic::Ordering::Relaxed));
    for l in ctx.run.brief() { println!("{l}"); }
}
