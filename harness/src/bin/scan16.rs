use vh::cfgs::*;
use vh::space::*;
fn main() {
    let a: Vec<String> = std::env::args().collect();
    let sigma: Vec<&str> = a[1].split(',').collect();
    let k: usize = a[2].parse().unwrap();
    let m: usize = a[3].parse().unwrap();
    let u = Universe::new("u", &sigma, k, m, false);
    let found = std::sync::Mutex::new(vec![]);
    let cfg = Cfg::new(0);
    vh::ev::par_for(u.len(), |i| {
        let t = u.set(i);
        if let Ok(o) = cfg.build(&t) {
            let re = vh::lang::compile_real_uncached(&o).unwrap();
            if !t.iter().all(|s| re.is_match(s)) { found.lock().unwrap().push((t.clone(), o)); }
        }
    });
    let mut f = found.into_inner().unwrap();
    f.sort_by_key(|x| x.0.iter().map(|s| s.len() + 1).sum::<usize>());
    println!("{} sets, {} failures", u.len(), f.len());
    for x in f.iter().take(6) { println!("{:?}", x); }
}
