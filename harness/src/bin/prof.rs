use vh::cfgs::*;
use vh::core::*;
use vh::space::*;
use std::time::Instant;
fn main() {
    std::panic::set_hook(Box::new(|_| {}));
    let ctx = Ctx::new("C01", "quick", "model_checking");
    let u = Universe::new("gc", A_GC, 2, 2, false);
    for bits in [0, R, X, I, E, NW | D] {
        let cfg = Cfg::new(bits);
        let t = Instant::now();
        vh::ev::par_for(u.len(), |i| vh::props::c01::check_case(&ctx, &u.set(i), &cfg));
        println!("{} {:?}", cfg.name(), t.elapsed());
    }
}
