use vh::cfgs::*;
use vh::space::*;
fn main() {
    let cfg = Cfg::new(0);
    for u in [u_full_minus(&["a", "b"], 6, 1), u_irregular(&["a", "b"], 6), u_irregular(&["a", "b", "c"], 4), u_full_minus(&["a", "b", "c"], 4, 1)] {
        let bad = std::sync::atomic::AtomicUsize::new(0);
        let t0 = std::time::Instant::now();
        vh::ev::par_for(u.len(), |i| {
            let t = u.set(i);
            if let Ok(o) = cfg.build(&t) {
                let re = vh::lang::compile_real_uncached(&o).unwrap();
                if !t.iter().all(|s| re.is_match(s)) { bad.fetch_add(1, std::sync::atomic::Ordering::Relaxed); }
            }
        });
        println!("{}: {} sets, {} failing membership, {:?}", u.name, u.len(), bad.load(std::sync::atomic::Ordering::Relaxed), t0.elapsed());
    }
}
