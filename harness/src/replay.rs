//! `vh replay <file>`: re-run one recorded violation against the real code. Language, search, panic and
//! validity violations are re-observed with the real build() and the real regex engine only (no automaton,
//! no enumerator); the remaining kinds re-run the property's single-case check.
use crate::cfgs::*;
use crate::core::*;
use crate::ev::Violation;
use crate::lang;
use serde_json::Value;

fn real_match(out: &str, cfg: &Cfg, w: &str) -> Result<bool, String> {
    let text = prep(out, cfg)?;
    let mut pat = text.clone();
    if cfg.has(NA) || cfg.has(NE) {
        pat = lang::wrap_text(&text);
    }
    Ok(lang::compile_real(&pat)?.is_match(w) && lang::compile_real(&lang::wrap_text(&text))?.is_match(w))
}

pub fn replay(path: &str) -> i32 {
    let Ok(s) = std::fs::read_to_string(path) else {
        eprintln!("cannot read {path}");
        return 2;
    };
    let j: Value = match serde_json::from_str(&s) {
        Ok(v) => v,
        Err(e) => {
            eprintln!("bad replay file: {e}");
            return 2;
        }
    };
    let v = Violation::from_json(&j);
    println!("replay property={} kind={} input={:?} settings={}", v.property, v.kind, v.tcs, v.cfg.name());
    let built = v.cfg.build(&v.tcs);
    match &built {
        Ok(o) => println!("  build() now returns {:?}", o),
        Err(m) => println!("  build() now panics: {}", m.lines().next().unwrap_or("")),
    }
    let reproduced: Option<bool> = match v.kind.as_str() {
        "panic" => Some(built.is_err()),
        "invalid" => Some(match &built {
            Ok(o) => prep(o, &v.cfg).and_then(|t| lang::compile_real(&t).map(|_| ())).is_err(),
            Err(_) => true,
        }),
        "lang" => {
            let w = v.detail["witness"].as_str().unwrap_or("");
            let want = v.detail["expected_in_language"].as_bool().unwrap_or(true);
            match &built {
                Ok(o) => match real_match(o, &v.cfg, w) {
                    Ok(m) => {
                        println!("  real regex engine: full match of {:?} = {} (property requires {})", w, m, want);
                        Some(m != want)
                    }
                    Err(e) => {
                        println!("  pattern rejected by the real engine: {e}");
                        Some(true)
                    }
                },
                Err(_) => Some(true),
            }
        }
        "lang-diff" => {
            let w = v.detail["witness"].as_str().unwrap_or("");
            let other = Cfg::from_json(&v.detail["other_settings"]);
            match (&built, other.build(&v.tcs)) {
                (Ok(a), Ok(b)) => match (real_match(a, &v.cfg, w), real_match(&b, &other, w)) {
                    (Ok(ma), Ok(mb)) => {
                        println!("  other settings {} return {:?}", other.name(), b);
                        println!("  real regex engine on {:?}: {} vs {}", w, ma, mb);
                        Some(ma != mb)
                    }
                    _ => Some(true),
                },
                _ => Some(true),
            }
        }
        "search" => {
            let t = v.detail["searched"].as_str().unwrap_or("");
            match &built {
                Ok(o) => match prep(o, &v.cfg).and_then(|p| lang::compile_real(&p)) {
                    Ok(re) => {
                        let m = re.find(t).map(|m| (m.start(), m.end()));
                        println!("  real regex engine: find({:?}) = {:?}, required (0, {})", t, m, t.len());
                        Some(m != Some((0, t.len())))
                    }
                    Err(_) => Some(true),
                },
                Err(_) => Some(true),
            }
        }
        _ => None,
    };
    let reproduced = reproduced.unwrap_or_else(|| {
        // re-run the single-case check of the property with a fresh run and no known findings applied
        let level = if matches!(v.property.as_str(), "C07" | "C09" | "C12" | "C13" | "C14" | "C15") { "exploration" } else { "model_checking" };
        let mut ctx = Ctx::new(&v.property, "quick", level);
        ctx.run.kf.entries.clear();
        let base = v.cfg.without(C);
        match v.property.as_str() {
            "C04" => crate::props::c04::check_case(&ctx, &v.tcs, &v.cfg),
            "C06" => crate::props::c06::check_case(&ctx, &v.tcs, &v.cfg),
            "C08" => crate::props::c08::check_case(&ctx, &v.tcs, &v.cfg),
            "C09" => crate::props::c09::replay_case(&ctx, &v.tcs, &v.cfg),
            "C11" => crate::props::c11::check_case(&ctx, &v.tcs, &v.cfg),
            "C13" => crate::props::c13::check_case(&ctx, &v.tcs, &v.cfg),
            "C15" => crate::props::c15::check_case(&ctx, &v.tcs, &base),
            "C16" => crate::props::c16::check_case(&ctx, &v.tcs, &v.cfg),
            "C10" => crate::props::c10::replay_case(&ctx, &v),
            _ => {
                println!("  no single-case replay for this kind; re-run `check {} quick`", v.property);
                return false;
            }
        }
        ctx.run.violation_count() > 0
    });
    if reproduced {
        println!("REPRODUCED property={} replay={}", v.property, path);
        1
    } else {
        println!("NOT-REPRODUCED property={} (the recorded violation no longer occurs on this tree)", v.property);
        0
    }
}
