//! Settings lattice: one `Cfg` = one value of the builder's 15 booleans + 2 thresholds.
use grex::RegExpBuilder;
use serde_json::{json, Value};

#[derive(Clone, Copy, Debug, Default, PartialEq, Eq, Hash, PartialOrd, Ord)]
pub struct Cfg {
    pub bits: u32,
    pub minrep: u32,
    pub minlen: u32,
}

pub const D: u32 = 1;
pub const ND: u32 = 2;
pub const S: u32 = 4;
pub const NS: u32 = 8;
pub const W: u32 = 16;
pub const NW: u32 = 32;
pub const R: u32 = 64;
pub const I: u32 = 128;
pub const G: u32 = 256;
pub const E: u32 = 512;
pub const U: u32 = 1024;
pub const X: u32 = 2048;
pub const NA: u32 = 4096;
pub const NE: u32 = 8192;
pub const C: u32 = 16384;
pub const NBITS: u32 = 15;
pub const CLASS_BITS: u32 = D | ND | S | NS | W | NW;
pub const NAMES: [&str; 15] = [
    "d", "D", "s", "S", "w", "W", "r", "i", "g", "e", "u", "x", "na", "ne", "c",
];

pub fn panic_msg(e: Box<dyn std::any::Any + Send>) -> String {
    e.downcast_ref::<String>()
        .cloned()
        .or_else(|| e.downcast_ref::<&str>().map(|s| s.to_string()))
        .unwrap_or_else(|| "<non-string panic payload>".to_string())
}

impl Cfg {
    pub const fn new(bits: u32) -> Cfg {
        Cfg { bits, minrep: 1, minlen: 1 }
    }
    pub const fn with(bits: u32, minrep: u32, minlen: u32) -> Cfg {
        Cfg { bits, minrep, minlen }
    }
    pub fn has(&self, b: u32) -> bool {
        self.bits & b != 0
    }
    pub fn or(&self, b: u32) -> Cfg {
        Cfg { bits: self.bits | b, ..*self }
    }
    pub fn without(&self, b: u32) -> Cfg {
        Cfg { bits: self.bits & !b, ..*self }
    }
    /// API-reachable: surrogates only together with escaping.
    pub fn valid(&self) -> bool {
        !(self.has(U) && !self.has(E))
    }
    pub fn flag_names(&self) -> Vec<&'static str> {
        (0..NBITS as usize)
            .filter(|i| self.bits & (1 << i) != 0)
            .map(|i| NAMES[i])
            .collect()
    }
    pub fn name(&self) -> String {
        format!("[{}|{},{}]", self.flag_names().join(","), self.minrep, self.minlen)
    }
    pub fn to_json(&self) -> Value {
        json!({"flags": self.flag_names(), "bits": self.bits, "min_repetitions": self.minrep, "min_substring_length": self.minlen})
    }
    pub fn from_json(v: &Value) -> Cfg {
        Cfg {
            bits: v["bits"].as_u64().unwrap_or(0) as u32,
            minrep: v["min_repetitions"].as_u64().unwrap_or(1) as u32,
            minlen: v["min_substring_length"].as_u64().unwrap_or(1) as u32,
        }
    }
    /// Parse "r,i,na" style names.
    pub fn parse_flags(s: &str) -> u32 {
        let mut bits = 0;
        for n in s.split(',').filter(|x| !x.is_empty()) {
            let i = NAMES.iter().position(|x| *x == n).unwrap_or_else(|| panic!("unknown flag {n}"));
            bits |= 1 << i;
        }
        bits
    }
    /// A fresh builder with these settings applied in canonical order.
    pub fn builder(&self, tcs: &[String]) -> RegExpBuilder {
        let mut b = RegExpBuilder::from(tcs);
        self.apply(&mut b);
        b
    }
    pub fn apply_flags_only(&self, b: &mut RegExpBuilder) {
        let saved = (self.minrep, self.minlen);
        let _ = saved;
        self.apply_inner(b, false);
    }
    pub fn apply(&self, b: &mut RegExpBuilder) {
        self.apply_inner(b, true);
    }
    fn apply_inner(&self, b: &mut RegExpBuilder, thresholds: bool) {
        if self.has(D) {
            b.with_conversion_of_digits();
        }
        if self.has(ND) {
            b.with_conversion_of_non_digits();
        }
        if self.has(S) {
            b.with_conversion_of_whitespace();
        }
        if self.has(NS) {
            b.with_conversion_of_non_whitespace();
        }
        if self.has(W) {
            b.with_conversion_of_words();
        }
        if self.has(NW) {
            b.with_conversion_of_non_words();
        }
        if self.has(R) {
            b.with_conversion_of_repetitions();
        }
        if self.has(I) {
            b.with_case_insensitive_matching();
        }
        if self.has(G) {
            b.with_capturing_groups();
        }
        if self.has(E) {
            b.with_escaping_of_non_ascii_chars(self.has(U));
        }
        if self.has(X) {
            b.with_verbose_mode();
        }
        if self.has(NA) {
            b.without_start_anchor();
        }
        if self.has(NE) {
            b.without_end_anchor();
        }
        if self.has(C) {
            b.with_syntax_highlighting();
        }
        if thresholds {
            b.with_minimum_repetitions(self.minrep);
            b.with_minimum_substring_length(self.minlen);
        }
    }
    /// Same settings, but the two thresholds are set BEFORE the flags (setter order must not matter).
    pub fn build_thresholds_first(&self, tcs: &[String]) -> Result<String, String> {
        let c = *self;
        std::panic::catch_unwind(move || {
            let mut b = RegExpBuilder::from(tcs);
            b.with_minimum_repetitions(c.minrep);
            b.with_minimum_substring_length(c.minlen);
            Cfg { minrep: c.minrep, minlen: c.minlen, ..c }.apply_flags_only(&mut b);
            b.build()
        })
        .map_err(panic_msg)
    }
    /// The real `build()`, with unwinds caught. The call is registered with the hang monitor while it runs.
    pub fn build(&self, tcs: &[String]) -> Result<String, String> {
        let c = *self;
        let _g = inflight::enter(tcs, self);
        std::panic::catch_unwind(move || c.builder(tcs).build()).map_err(panic_msg)
    }
}

/// All settings whose bits are `base | s` for `s` a subset of `free` with at most `k` bits set.
pub fn lattice_le(base: u32, free: u32, k: u32) -> Vec<Cfg> {
    let idx: Vec<u32> = (0..NBITS).filter(|i| free & (1 << i) != 0).collect();
    let mut out = vec![];
    fn rec(idx: &[u32], start: usize, cur: u32, left: u32, base: u32, out: &mut Vec<Cfg>) {
        let c = Cfg::new(base | cur);
        if c.valid() {
            out.push(c);
        }
        if left == 0 {
            return;
        }
        for j in start..idx.len() {
            rec(idx, j + 1, cur | (1 << idx[j]), left - 1, base, out);
        }
    }
    rec(&idx, 0, 0, k, base, &mut out);
    out.sort();
    out.dedup();
    out
}

/// Every subset of `free` (API-reachable only), or-ed onto `base`.
pub fn lattice_all(base: u32, free: u32) -> Vec<Cfg> {
    lattice_le(base, free, NBITS)
}

pub const ALL_BITS: u32 = (1 << NBITS) - 1;


/// Builds in flight, one slot per worker thread: lets a monitor thread see a `build()` that does not return.
pub mod inflight {
    use super::Cfg;
    use std::sync::atomic::{AtomicUsize, Ordering};
    use std::sync::Mutex;
    use std::time::Instant;

    pub const SLOTS: usize = 512;
    pub struct Entry {
        pub since: Instant,
        pub tcs: Vec<String>,
        pub cfg: Cfg,
    }
    static NEXT: AtomicUsize = AtomicUsize::new(0);
    thread_local! {
        static SLOT: usize = NEXT.fetch_add(1, Ordering::Relaxed) % SLOTS;
    }
    fn table() -> &'static Vec<Mutex<Option<Entry>>> {
        static T: std::sync::OnceLock<Vec<Mutex<Option<Entry>>>> = std::sync::OnceLock::new();
        T.get_or_init(|| (0..SLOTS).map(|_| Mutex::new(None)).collect())
    }
    pub struct Guard(usize);
    impl Drop for Guard {
        fn drop(&mut self) {
            if let Ok(mut g) = table()[self.0].lock() {
                *g = None;
            }
        }
    }
    pub fn enter(tcs: &[String], cfg: &Cfg) -> Guard {
        let i = SLOT.with(|s| *s);
        if let Ok(mut g) = table()[i].lock() {
            *g = Some(Entry { since: Instant::now(), tcs: tcs.to_vec(), cfg: *cfg });
        }
        Guard(i)
    }
    /// The oldest build in flight that has been running for more than `limit_s` seconds.
    pub fn stuck(limit_s: u64) -> Option<(u64, Vec<String>, Cfg)> {
        let mut worst: Option<(u64, Vec<String>, Cfg)> = None;
        for m in table().iter() {
            if let Ok(g) = m.lock() {
                if let Some(e) = g.as_ref() {
                    let age = e.since.elapsed().as_secs();
                    if age >= limit_s && worst.as_ref().map_or(true, |w| age > w.0) {
                        worst = Some((age, e.tcs.clone(), e.cfg));
                    }
                }
            }
        }
        worst
    }
}
