//! L-engine self-test (DESIGN §2.4): for a corpus of patterns covering every syntactic shape grex can emit,
//! my automaton and the real regex engine are compared on ALL strings of length <= 4 over the pattern's atoms.
use crate::cfgs::*;
use crate::lang::{self, Interner, Nfa};

fn corpus() -> Vec<String> {
    let mut v: Vec<String> = [
        "^a$", "^$", "", "a", "^(?:a|b)$", "^(?:ab|a)?$", "^a?b*c$", "^(?:ab)*$", "^a{3}$", "^a{2,4}b$", "^(?:ab){2}c{1,2}$", "^[ab]$", "^[a-c]x$", "^[\\-\\]\\[\\\\^$]$",
        "^\\d\\w\\s$", "^\\D$", "^\\W\\S$", "(?i)^ab$", "(?i)^[a-c]k$", "(?i)^\u{3c3}$", "(?x)\n^\n  a\\ b\\#\n$", "(?ix)\n^\n  (?:\n    a\n    |\n    b\n  )\n$", "^\\u{e9}\\u{1f4a9}$",
        "^(a|b)(c)?$", "^(?:a(?:b(?:c)?)?)?$", "^\\.\\*\\+\\?\\(\\)\\[\\]\\{\\}\\|\\^\\$\\\\$", "^\\n\\r\\t\\v\\f$", "a$", "^a", "^(?:a|ab)", "(?:b|ab)$", "^a|b$", "^(?:^a$|b)$", "a^b", "a$b",
        "^[\\d]$", "^\\d{2}\\D?$", "^(?:\\w|\\W)$", "^a{0}$", "^(?:a|)$", "^(?:|a)b$", "^\\u{10ffff}$", "^[\u{e9}\u{c9}]$", "(?i)^\u{e9}$", "^(?:a?){2}$", "^(?:a*)*$",
    ]
    .iter()
    .map(|s| s.to_string())
    .collect();
    // real grex outputs over a spread of inputs and settings
    let inputs = crate::props::c07::curated();
    let cfgs = lattice_le(0, ALL_BITS & !(U | C), 2);
    for (i, t) in inputs.iter().enumerate() {
        for (j, c) in cfgs.iter().enumerate() {
            if (i * 7 + j) % 23 == 0 {
                if let Ok(o) = c.build(t) {
                    v.push(o);
                }
            }
        }
    }
    v.sort();
    v.dedup();
    v
}

pub fn run() -> i32 {
    let pats = corpus();
    let mut strings = 0u64;
    let mut skipped = 0;
    for p in &pats {
        let Ok(h) = lang::parse(p) else {
            skipped += 1;
            continue;
        };
        let full = lang::anchored(h);
        let mut it = Interner::default();
        let nfa = match Nfa::from_hir(&full, &mut it) {
            Ok(n) => n,
            Err(e) => {
                eprintln!("SELFTEST: unsupported HIR for {:?}: {e}", p);
                return 2;
            }
        };
        let at = lang::atoms(&it);
        let re = match lang::compile_real(&lang::wrap_text(p)) {
            Ok(r) => r,
            Err(_) => {
                skipped += 1;
                continue;
            }
        };
        let maxlen = if at.reps.len() <= 8 { 4 } else if at.reps.len() <= 16 { 3 } else { 2 };
        let mut layer = vec![String::new()];
        for len in 0..=maxlen {
            for s in &layer {
                strings += 1;
                if nfa.matches(&it, s) != re.is_match(s) {
                    eprintln!("SELFTEST FAILED: pattern {:?} string {:?}: automaton {} real engine {}", p, s, nfa.matches(&it, s), re.is_match(s));
                    return 2;
                }
            }
            if len < maxlen {
                layer = layer.iter().flat_map(|s| at.reps.iter().map(move |c| format!("{s}{c}"))).collect();
            }
        }
    }
    println!("selftest ok: {} patterns ({} not parseable/compilable skipped), {} strings compared with the real engine", pats.len(), skipped, strings);
    0
}
