//! HIR -> epsilon-NFA over an interned class alphabet; product exploration.
use regex_syntax::hir::{Class, ClassUnicode, ClassUnicodeRange, Hir, HirKind, Look};
use std::collections::{HashMap, VecDeque};

#[derive(Clone, Copy, Debug, PartialEq, Eq)]
pub enum Label {
    Eps,
    Class(usize),
    Start,
    End,
}

#[derive(Default)]
pub struct Interner {
    pub classes: Vec<Vec<(u32, u32)>>,
    index: HashMap<Vec<(u32, u32)>, usize>,
}

impl Interner {
    pub fn intern(&mut self, ranges: Vec<(u32, u32)>) -> usize {
        if let Some(&i) = self.index.get(&ranges) {
            return i;
        }
        let i = self.classes.len();
        self.index.insert(ranges.clone(), i);
        self.classes.push(ranges);
        i
    }
    pub fn intern_class(&mut self, c: &ClassUnicode) -> usize {
        self.intern(
            c.ranges()
                .iter()
                .map(|r| (r.start() as u32, r.end() as u32))
                .collect(),
        )
    }
}

pub struct Nfa {
    pub edges: Vec<Vec<(Label, usize)>>,
    pub start: usize,
    pub accept: usize,
}

impl Nfa {
    fn new_state(&mut self) -> usize {
        self.edges.push(vec![]);
        self.edges.len() - 1
    }
    pub fn from_hir(h: &Hir, it: &mut Interner) -> Result<Nfa, String> {
        let mut n = Nfa {
            edges: vec![],
            start: 0,
            accept: 0,
        };
        let s = n.new_state();
        let a = n.new_state();
        n.start = s;
        n.accept = a;
        n.compile(h, s, a, it)?;
        Ok(n)
    }
    pub fn from_graph(n: usize, start: usize, finals: &[usize], edges: &[(usize, usize, Hir)], it: &mut Interner) -> Result<Nfa, String> {
        let mut nfa = Nfa { edges: vec![], start, accept: 0 };
        for _ in 0..n { nfa.new_state(); }
        let acc = nfa.new_state();
        nfa.accept = acc;
        for &f in finals { nfa.edges[f].push((Label::Eps, acc)); }
        for (a, b, h) in edges { nfa.compile(h, *a, *b, it)?; }
        Ok(nfa)
    }
    fn compile(&mut self, h: &Hir, from: usize, to: usize, it: &mut Interner) -> Result<(), String> {
        match h.kind() {
            HirKind::Empty => self.edges[from].push((Label::Eps, to)),
            HirKind::Literal(l) => {
                let s = std::str::from_utf8(&l.0).map_err(|e| format!("non-utf8 literal {e}"))?;
                let mut cur = from;
                let n = s.chars().count();
                for (i, c) in s.chars().enumerate() {
                    let id = it.intern(vec![(c as u32, c as u32)]);
                    let nxt = if i + 1 == n { to } else { self.new_state() };
                    self.edges[cur].push((Label::Class(id), nxt));
                    cur = nxt;
                }
                if n == 0 {
                    self.edges[from].push((Label::Eps, to));
                }
            }
            HirKind::Class(Class::Unicode(c)) => {
                let id = it.intern_class(c);
                self.edges[from].push((Label::Class(id), to));
            }
            HirKind::Class(Class::Bytes(c)) => {
                if !c.is_ascii() {
                    return Err("non-ascii byte class".into());
                }
                let id = it.intern(
                    c.ranges()
                        .iter()
                        .map(|r| (r.start() as u32, r.end() as u32))
                        .collect(),
                );
                self.edges[from].push((Label::Class(id), to));
            }
            HirKind::Look(Look::Start) => self.edges[from].push((Label::Start, to)),
            HirKind::Look(Look::End) => self.edges[from].push((Label::End, to)),
            HirKind::Look(l) => return Err(format!("unsupported look {:?}", l)),
            HirKind::Capture(c) => self.compile(&c.sub, from, to, it)?,
            HirKind::Concat(v) => {
                let mut cur = from;
                for (i, x) in v.iter().enumerate() {
                    let nxt = if i + 1 == v.len() { to } else { self.new_state() };
                    self.compile(x, cur, nxt, it)?;
                    cur = nxt;
                }
            }
            HirKind::Alternation(v) => {
                for x in v {
                    let a = self.new_state();
                    let b = self.new_state();
                    self.edges[from].push((Label::Eps, a));
                    self.compile(x, a, b, it)?;
                    self.edges[b].push((Label::Eps, to));
                }
            }
            HirKind::Repetition(r) => {
                if r.min > 2000 || r.max.map_or(false, |m| m > 2000) {
                    return Err("repetition too large".into());
                }
                let mut cur = from;
                for _ in 0..r.min {
                    let nxt = self.new_state();
                    self.compile(&r.sub, cur, nxt, it)?;
                    cur = nxt;
                }
                match r.max {
                    None => {
                        let a = self.new_state();
                        let b = self.new_state();
                        self.edges[cur].push((Label::Eps, a));
                        self.compile(&r.sub, a, b, it)?;
                        self.edges[b].push((Label::Eps, a));
                        self.edges[a].push((Label::Eps, to));
                    }
                    Some(m) => {
                        self.edges[cur].push((Label::Eps, to));
                        for _ in r.min..m {
                            let nxt = self.new_state();
                            self.compile(&r.sub, cur, nxt, it)?;
                            self.edges[nxt].push((Label::Eps, to));
                            cur = nxt;
                        }
                    }
                }
            }
        }
        Ok(())
    }

    fn closure(&self, seed: &[usize], at_start: bool, at_end: bool) -> Vec<usize> {
        let mut seen = vec![false; self.edges.len()];
        let mut stack: Vec<usize> = seed.to_vec();
        for &s in seed {
            seen[s] = true;
        }
        while let Some(q) = stack.pop() {
            for &(l, t) in &self.edges[q] {
                let ok = match l {
                    Label::Eps => true,
                    Label::Start => at_start,
                    Label::End => at_end,
                    Label::Class(_) => false,
                };
                if ok && !seen[t] {
                    seen[t] = true;
                    stack.push(t);
                }
            }
        }
        (0..seen.len()).filter(|&i| seen[i]).collect()
    }
    fn accepts_here(&self, set: &[usize], at_start: bool) -> bool {
        self.closure(set, at_start, true).contains(&self.accept)
    }
    fn step(&self, set: &[usize], atom: &[bool]) -> Vec<usize> {
        let mut out = vec![];
        for &q in set {
            for &(l, t) in &self.edges[q] {
                if let Label::Class(c) = l {
                    if atom[c] {
                        out.push(t);
                    }
                }
            }
        }
        out.sort_unstable();
        out.dedup();
        self.closure(&out, false, false)
    }
}

/// Partition of the scalar values by membership signature in the interned classes.
pub struct Atoms {
    pub sigs: Vec<Vec<bool>>,
    pub reps: Vec<char>,
    pub sizes: Vec<u32>,
}

thread_local! {
    static ATOM_CACHE: std::cell::RefCell<HashMap<Vec<Vec<(u32, u32)>>, std::rc::Rc<Atoms>>> = std::cell::RefCell::new(HashMap::new());
}

/// Atoms for the interned classes, memoised per thread by the exact class list.
pub fn atoms_cached(it: &Interner) -> std::rc::Rc<Atoms> {
    ATOM_CACHE.with(|c| {
        let mut c = c.borrow_mut();
        if let Some(a) = c.get(&it.classes) {
            return a.clone();
        }
        if c.len() > 5_000 {
            c.clear();
        }
        let a = std::rc::Rc::new(atoms(it));
        c.insert(it.classes.clone(), a.clone());
        a
    })
}

pub fn atoms(it: &Interner) -> Atoms {
    let mut bounds: Vec<u32> = vec![0, 0xD800, 0xE000, 0x110000];
    for c in &it.classes {
        for &(s, e) in c {
            bounds.push(s);
            bounds.push(e + 1);
        }
    }
    bounds.sort_unstable();
    bounds.dedup();
    let mut map: HashMap<Vec<bool>, usize> = HashMap::new();
    let mut out = Atoms { sigs: vec![], reps: vec![], sizes: vec![] };
    for w in bounds.windows(2) {
        let (lo, hi) = (w[0], w[1]);
        if lo >= 0xD800 && lo < 0xE000 {
            continue;
        }
        let Some(ch) = char::from_u32(lo) else { continue };
        let sig: Vec<bool> = it
            .classes
            .iter()
            .map(|c| {
                // binary search
                let i = c.partition_point(|&(_, e)| e < lo);
                i < c.len() && c[i].0 <= lo
            })
            .collect();
        match map.get(&sig) {
            Some(&i) => out.sizes[i] += hi - lo,
            None => {
                map.insert(sig.clone(), out.sigs.len());
                out.sigs.push(sig);
                out.reps.push(ch);
                out.sizes.push(hi - lo);
            }
        }
    }
    out
}

pub struct Diff {
    pub witness: String,
    pub in_a: bool,
    pub in_b: bool,
}

#[derive(Default, Debug)]
pub struct Stats {
    pub states: usize,
    pub transitions: usize,
    pub atoms: usize,
    /// access string of each product state and A's acceptance there (for conformance replay)
    pub access: Vec<(String, bool)>,
}

/// Defensive cap: exceeding it is a machinery error, never a verdict.
pub const MAX_PRODUCT_STATES: usize = 2_000_000;

/// Explore the product of the two automata; return first (shortest) difference.
pub fn compare(a: &Hir, b: &Hir, keep_access: bool) -> Result<(Option<Diff>, Stats), String> {
    let mut it = Interner::default();
    let na = Nfa::from_hir(a, &mut it)?;
    let nb = Nfa::from_hir(b, &mut it)?;
    compare_nfa(na, nb, it, keep_access)
}

pub fn compare_nfa(na: Nfa, nb: Nfa, it: Interner, keep_access: bool) -> Result<(Option<Diff>, Stats), String> {
    let at = atoms_cached(&it);
    let sa = na.closure(&[na.start], true, false);
    let sb = nb.closure(&[nb.start], true, false);
    let mut ids: HashMap<(Vec<usize>, Vec<usize>), usize> = HashMap::new();
    let mut nodes: Vec<(Vec<usize>, Vec<usize>, Option<(usize, usize)>)> = vec![];
    let mut q = VecDeque::new();
    ids.insert((sa.clone(), sb.clone()), 0);
    nodes.push((sa, sb, None));
    q.push_back(0usize);
    let mut stats = Stats { states: 0, transitions: 0, atoms: at.sigs.len(), access: vec![] };
    if at.sigs.len() > 4096 {
        return Err(format!("too many atoms: {}", at.sigs.len()));
    }
    let access = |nodes: &Vec<(Vec<usize>, Vec<usize>, Option<(usize, usize)>)>, mut i: usize| {
        let mut cs = vec![];
        while let Some((p, a)) = nodes[i].2 {
            cs.push(at.reps[a]);
            i = p;
        }
        cs.reverse();
        cs.into_iter().collect::<String>()
    };
    while let Some(i) = q.pop_front() {
        stats.states += 1;
        if stats.states > MAX_PRODUCT_STATES {
            return Err(format!("product exceeded {} states", MAX_PRODUCT_STATES));
        }
        let (xa, xb) = (nodes[i].0.clone(), nodes[i].1.clone());
        let start = i == 0;
        let (ia, ib) = (na.accepts_here(&xa, start), nb.accepts_here(&xb, start));
        if keep_access {
            stats.access.push((access(&nodes, i), ia));
        }
        if ia != ib {
            return Ok((Some(Diff { witness: access(&nodes, i), in_a: ia, in_b: ib }), stats));
        }
        if xa.is_empty() && xb.is_empty() {
            continue;
        }
        for (ai, sig) in at.sigs.iter().enumerate() {
            stats.transitions += 1;
            let ya = na.step(&xa, sig);
            let yb = nb.step(&xb, sig);
            let key = (ya, yb);
            if !ids.contains_key(&key) {
                let id = nodes.len();
                ids.insert(key.clone(), id);
                nodes.push((key.0, key.1, Some((i, ai))));
                q.push_back(id);
            }
        }
    }
    Ok((None, stats))
}

pub fn class_of(pat: &str) -> ClassUnicode {
    let h = regex_syntax::Parser::new().parse(pat).unwrap();
    match h.kind() {
        HirKind::Class(Class::Unicode(c)) => c.clone(),
        _ => panic!("not a class"),
    }
}

pub fn lit_char(c: char, fold: bool) -> Hir {
    let mut cls = ClassUnicode::new([ClassUnicodeRange::new(c, c)]);
    if fold {
        cls.case_fold_simple();
    }
    Hir::class(Class::Unicode(cls))
}

impl Nfa {
    /// Direct simulation of one string (no atoms): full-match semantics with exact anchors.
    pub fn matches(&self, it: &Interner, s: &str) -> bool {
        let mut cur = self.closure(&[self.start], true, false);
        let mut first = true;
        for ch in s.chars() {
            let c = ch as u32;
            let mut out = vec![];
            for &q in &cur {
                for &(l, t) in &self.edges[q] {
                    if let Label::Class(k) = l {
                        let r = &it.classes[k];
                        let i = r.partition_point(|&(_, e)| e < c);
                        if i < r.len() && r[i].0 <= c {
                            out.push(t);
                        }
                    }
                }
            }
            out.sort_unstable();
            out.dedup();
            cur = self.closure(&out, false, false);
            first = false;
        }
        self.accepts_here(&cur, first)
    }
}

/// Parse with regex-syntax (the regex crate's own front end) with the resource limit on nesting raised.
pub fn parse(pat: &str) -> Result<Hir, String> {
    regex_syntax::ParserBuilder::new()
        .nest_limit(100_000)
        .build()
        .parse(pat)
        .map_err(|e| {
            let s = format!("{e}");
            s.lines().last().unwrap_or("").trim().to_string()
        })
}

pub fn anchored(h: Hir) -> Hir {
    Hir::concat(vec![Hir::look(Look::Start), h, Hir::look(Look::End)])
}

/// Text-level wrapping for the real engine: `^(?:pat)$`; a newline closes a possible
/// trailing comment when the pattern is in verbose mode.
pub fn wrap_text(pat: &str) -> String {
    if pat.starts_with("(?x)") || pat.starts_with("(?ix)") {
        format!("^(?:{pat}\n)$")
    } else {
        format!("^(?:{pat})$")
    }
}

thread_local! {
    static RE_CACHE: std::cell::RefCell<HashMap<String, std::rc::Rc<regex::Regex>>> = std::cell::RefCell::new(HashMap::new());
    static RE_CACHE_COST: std::cell::Cell<u64> = std::cell::Cell::new(0);
}

/// Real engine, compiled once per distinct pattern text per thread (Unicode classes are slow to compile,
/// and cloning a Regex allocates a fresh scratch pool, hence the Rc).
pub fn compile_real(pat: &str) -> Result<std::rc::Rc<regex::Regex>, String> {
    RE_CACHE.with(|c| {
        let mut c = c.borrow_mut();
        if let Some(r) = c.get(pat) {
            return Ok(r.clone());
        }
        // The cache is bounded by entry count AND by the time its entries took to compile (a proxy for their
        // size: `\w{300}` is tens of megabytes, and 1,500 of those per thread exhausted the machine once).
        let spent = RE_CACHE_COST.with(|k| k.get());
        if c.len() > 1_500 || spent > 400_000 {
            c.clear();
            RE_CACHE_COST.with(|k| k.set(0));
        }
        let t0 = std::time::Instant::now();
        let r = std::rc::Rc::new(compile_real_uncached(pat)?);
        RE_CACHE_COST.with(|k| k.set(k.get() + t0.elapsed().as_micros() as u64));
        c.insert(pat.to_string(), r.clone());
        Ok(r)
    })
}

pub fn compile_real_uncached(pat: &str) -> Result<regex::Regex, String> {
    regex::RegexBuilder::new(pat)
        .nest_limit(100_000)
        .size_limit(1 << 30)
        .build()
        .map_err(|e| format!("{e}").lines().last().unwrap_or("").trim().to_string())
}

/// Is `h` free of look-around other than a leading Start and a trailing End of the top-level concat?
/// Returns (has_leading_start, has_trailing_end, stray_looks).
pub fn anchor_shape(h: &Hir) -> (bool, bool, usize) {
    fn count(h: &Hir) -> usize {
        match h.kind() {
            HirKind::Look(_) => 1,
            HirKind::Capture(c) => count(&c.sub),
            HirKind::Repetition(r) => count(&r.sub),
            HirKind::Concat(v) | HirKind::Alternation(v) => v.iter().map(count).sum(),
            _ => 0,
        }
    }
    match h.kind() {
        HirKind::Look(Look::Start) => (true, false, 0),
        HirKind::Look(Look::End) => (false, true, 0),
        HirKind::Concat(v) => {
            let s = matches!(v.first().map(|x| x.kind()), Some(HirKind::Look(Look::Start)));
            let e = matches!(v.last().map(|x| x.kind()), Some(HirKind::Look(Look::End)));
            let total: usize = v.iter().map(count).sum();
            (s, e, total - s as usize - e as usize)
        }
        _ => (false, false, count(h)),
    }
}

/// Remove exact SGR sequences `ESC [ digits(;digits)* m`.
pub fn strip_sgr(s: &str) -> String {
    let b: Vec<char> = s.chars().collect();
    let mut out = String::with_capacity(s.len());
    let mut i = 0;
    while i < b.len() {
        if b[i] == '\u{1b}' && i + 1 < b.len() && b[i + 1] == '[' {
            let mut j = i + 2;
            let mut ok = false;
            let mut need_digit = true;
            while j < b.len() {
                if b[j].is_ascii_digit() {
                    need_digit = false;
                    j += 1;
                } else if b[j] == ';' && !need_digit {
                    need_digit = true;
                    j += 1;
                } else if b[j] == 'm' && !need_digit {
                    ok = true;
                    break;
                } else {
                    break;
                }
            }
            if ok {
                i = j + 1;
                continue;
            }
        }
        out.push(b[i]);
        i += 1;
    }
    out
}

/// One `\u{h..}` escape token in a pattern string, found by a left-to-right scan that
/// skips other backslash escapes (so `\\u{..}` = escaped backslash + text is not a token).
#[derive(Debug, Clone, PartialEq)]
pub struct EscTok {
    pub start: usize,
    pub end: usize,
    pub value: u32,
    pub digits: String,
}

pub fn scan_escapes(s: &str) -> Vec<EscTok> {
    let b = s.as_bytes();
    let mut out = vec![];
    let mut i = 0;
    while i < b.len() {
        if b[i] == b'\\' {
            if i + 2 < b.len() && b[i + 1] == b'u' && b[i + 2] == b'{' {
                if let Some(close) = s[i + 3..].find('}') {
                    let digits = &s[i + 3..i + 3 + close];
                    if !digits.is_empty() && digits.len() <= 8 && digits.bytes().all(|c| c.is_ascii_hexdigit()) {
                        let v = u32::from_str_radix(digits, 16).unwrap();
                        out.push(EscTok { start: i, end: i + 3 + close + 1, value: v, digits: digits.to_string() });
                        i = i + 3 + close + 1;
                        continue;
                    }
                }
            }
            // skip the escaped character (whatever it is)
            i += 1;
            if i < b.len() {
                let ch = s[i..].chars().next().unwrap();
                i += ch.len_utf8();
            }
        } else {
            let ch = s[i..].chars().next().unwrap();
            i += ch.len_utf8();
        }
    }
    out
}

/// Re-pair UTF-16 surrogate escapes: `\u{d83d}\u{dca9}` -> `\u{1f4a9}`. Lone surrogate escapes are an error.
pub fn repair_surrogates(s: &str) -> Result<String, String> {
    let toks = scan_escapes(s);
    let mut out = String::new();
    let mut pos = 0;
    let mut i = 0;
    while i < toks.len() {
        let t = &toks[i];
        out.push_str(&s[pos..t.start]);
        if (0xD800..0xDC00).contains(&t.value) {
            if i + 1 < toks.len() && toks[i + 1].start == t.end && (0xDC00..0xE000).contains(&toks[i + 1].value) {
                let lo = toks[i + 1].value;
                let cp = 0x10000 + ((t.value - 0xD800) << 10) + (lo - 0xDC00);
                out.push_str(&format!("\\u{{{:x}}}", cp));
                pos = toks[i + 1].end;
                i += 2;
                continue;
            }
            return Err(format!("lone high surrogate escape \\u{{{:x}}}", t.value));
        } else if (0xDC00..0xE000).contains(&t.value) {
            return Err(format!("lone low surrogate escape \\u{{{:x}}}", t.value));
        }
        out.push_str(&s[t.start..t.end]);
        pos = t.end;
        i += 1;
    }
    out.push_str(&s[pos..]);
    Ok(out)
}

/// Decode every `\u{..}` token to the literal scalar (escaping it if it is a regex metacharacter is
/// unnecessary: only non-ASCII scalars are ever escaped this way by the subject).
pub fn decode_escapes(s: &str) -> Result<String, String> {
    decode_escapes_opt(s, false)
}

/// With `keep_whitespace` (verbose-mode patterns) escapes of White_Space scalars stay escapes: written
/// literally they would be ignored by (?x), which is exactly why the subject writes them as escapes.
pub fn decode_escapes_opt(s: &str, keep_whitespace: bool) -> Result<String, String> {
    let toks = scan_escapes(s);
    let mut out = String::new();
    let mut pos = 0;
    for t in &toks {
        out.push_str(&s[pos..t.start]);
        match char::from_u32(t.value) {
            Some(c) if !c.is_ascii() && !(keep_whitespace && c.is_whitespace()) => out.push(c),
            Some(_) => out.push_str(&s[t.start..t.end]),
            None => return Err(format!("escape \\u{{{:x}}} is not a scalar value", t.value)),
        }
        pos = t.end;
    }
    out.push_str(&s[pos..]);
    Ok(out)
}

/// Leftmost-first search by the regex crate's reference implementation (the PikeVM of regex-automata, the
/// engine all optimised engines must agree with). Used to tell a defect of the subject from a defect of the
/// optimised search path of the engine itself.
pub fn pikevm_find(pat: &str, hay: &str) -> Result<Option<(usize, usize)>, String> {
    use regex_automata::nfa::thompson::pikevm::PikeVM;
    use regex_automata::util::syntax;
    let vm = PikeVM::builder()
        .syntax(syntax::Config::new().nest_limit(100_000))
        .build(pat)
        .map_err(|e| format!("{e}"))?;
    let mut cache = vm.create_cache();
    Ok(vm.find(&mut cache, hay).map(|m| (m.start(), m.end())))
}
