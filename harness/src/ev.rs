//! Run bookkeeping: counters, violations grouped by signature, known findings, evidence file.
use crate::cfgs::Cfg;
use serde_json::{json, Map, Value};
use std::collections::hash_map::DefaultHasher;
use std::collections::{BTreeMap, HashSet};
use std::hash::{Hash, Hasher};
use std::sync::atomic::{AtomicU64, AtomicUsize, Ordering};
use std::sync::Mutex;
use std::time::Instant;

pub fn root() -> String {
    std::env::var("VERIF_ROOT").unwrap_or_else(|_| "/verif".to_string())
}

pub fn threads() -> usize {
    std::env::var("VERIF_THREADS")
        .ok()
        .and_then(|s| s.parse().ok())
        .unwrap_or_else(|| std::thread::available_parallelism().map(|n| n.get()).unwrap_or(8).min(16))
}

/// Run `f(i)` for every i in 0..n on all cores (dynamic chunking).
pub fn par_for<F: Fn(usize) + Sync>(n: usize, f: F) {
    let next = AtomicUsize::new(0);
    let chunk = (n / (threads() * 64)).clamp(1, 1024);
    std::thread::scope(|sc| {
        for _ in 0..threads() {
            sc.spawn(|| loop {
                let s = next.fetch_add(chunk, Ordering::Relaxed);
                if s >= n {
                    break;
                }
                for i in s..(s + chunk).min(n) {
                    f(i);
                }
            });
        }
    });
}

#[derive(Clone, Debug)]
pub struct Violation {
    pub property: String,
    /// replay kind: lang | panic | invalid | search | string | structure | determinism | cli | py
    pub kind: String,
    /// grouping signature (stage + direction + flags), used to print only a few per group
    pub sig: String,
    pub tcs: Vec<String>,
    pub cfg: Cfg,
    pub out: String,
    pub detail: Value,
}

impl Violation {
    pub fn weight(&self) -> (usize, usize, u32) {
        (self.tcs.iter().map(|t| t.chars().count() + 1).sum(), self.cfg.bits.count_ones() as usize, self.cfg.bits)
    }
    pub fn to_json(&self) -> Value {
        json!({
            "property": self.property, "kind": self.kind, "signature": self.sig,
            "test_cases": self.tcs, "settings": self.cfg.to_json(), "actual_output": self.out,
            "detail": self.detail,
        })
    }
    pub fn from_json(v: &Value) -> Violation {
        Violation {
            property: v["property"].as_str().unwrap_or("").to_string(),
            kind: v["kind"].as_str().unwrap_or("").to_string(),
            sig: v["signature"].as_str().unwrap_or("").to_string(),
            tcs: v["test_cases"].as_array().map(|a| a.iter().map(|x| x.as_str().unwrap_or("").to_string()).collect()).unwrap_or_default(),
            cfg: Cfg::from_json(&v["settings"]),
            out: v["actual_output"].as_str().unwrap_or("").to_string(),
            detail: v["detail"].clone(),
        }
    }
}

#[derive(Clone, Debug)]
pub struct KfEntry {
    pub id: String,
    pub properties: Vec<String>,
    pub status: String,
    pub model: String,
    pub params: Value,
    pub what: String,
}

#[derive(Default)]
pub struct KnownFindings {
    pub entries: Vec<KfEntry>,
}

impl KnownFindings {
    pub fn load() -> KnownFindings {
        let p = format!("{}/known_findings.json", root());
        let Ok(s) = std::fs::read_to_string(&p) else { return KnownFindings::default() };
        let v: Value = serde_json::from_str(&s).unwrap_or_else(|e| {
            eprintln!("MACHINERY-ERROR: cannot parse {p}: {e}");
            std::process::exit(2)
        });
        let mut entries = vec![];
        for e in v["findings"].as_array().cloned().unwrap_or_default() {
            entries.push(KfEntry {
                id: e["id"].as_str().unwrap_or("").to_string(),
                properties: e["properties"].as_array().map(|a| a.iter().map(|x| x.as_str().unwrap_or("").to_string()).collect()).unwrap_or_default(),
                status: e["status"].as_str().unwrap_or("").to_string(),
                model: e["match"]["model"].as_str().unwrap_or("").to_string(),
                params: e["match"].clone(),
                what: e["what"].as_str().unwrap_or("").to_string(),
            });
        }
        KnownFindings { entries }
    }
    /// Open entries that may suppress violations of `prop`.
    pub fn open_for(&self, prop: &str) -> Vec<&KfEntry> {
        self.entries.iter().filter(|e| e.status == "open" && e.properties.iter().any(|p| p == prop)).collect()
    }
    pub fn open_model(&self, prop: &str, model: &str) -> Option<&KfEntry> {
        self.open_for(prop).into_iter().find(|e| e.model == model)
    }
}

struct Bucket {
    count: u64,
    kept: Vec<Violation>,
}

pub struct Run {
    pub prop: String,
    pub tier: String,
    pub level: String,
    t0: Instant,
    pub evals: AtomicU64,
    pub states: AtomicU64,
    pub transitions: AtomicU64,
    pub traces: AtomicU64,
    nontriv: Vec<Mutex<HashSet<u64>>>,
    /// non-trivial cases that are distinct by construction (each enumerated exactly once), counted not hashed
    pub nontriv_counted: AtomicU64,
    samples: Mutex<Vec<Value>>,
    viols: Mutex<BTreeMap<String, Bucket>>,
    kf_hits: Mutex<BTreeMap<String, (u64, Option<Violation>)>>,
    pub machinery: Mutex<Vec<String>>,
    pub kf: KnownFindings,
    pub extra: Mutex<Map<String, Value>>,
    pub spaces: Mutex<Vec<Value>>,
    pub rule: Mutex<String>,
    pub exhaustive: Mutex<bool>,
    pub assumptions: Mutex<Vec<String>>,
    pub caps_hit: Mutex<Vec<String>>,
}

pub fn hash_case(tcs: &[String], cfg: &Cfg) -> u64 {
    let mut h = DefaultHasher::new();
    tcs.hash(&mut h);
    cfg.hash(&mut h);
    h.finish()
}

impl Run {
    pub fn new(prop: &str, tier: &str, level: &str) -> Run {
        Run {
            prop: prop.to_string(),
            tier: tier.to_string(),
            level: level.to_string(),
            t0: Instant::now(),
            evals: AtomicU64::new(0),
            states: AtomicU64::new(0),
            transitions: AtomicU64::new(0),
            traces: AtomicU64::new(0),
            nontriv: (0..64).map(|_| Mutex::new(HashSet::new())).collect(),
            nontriv_counted: AtomicU64::new(0),
            samples: Mutex::new(vec![]),
            viols: Mutex::new(BTreeMap::new()),
            kf_hits: Mutex::new(BTreeMap::new()),
            machinery: Mutex::new(vec![]),
            kf: KnownFindings::load(),
            extra: Mutex::new(Map::new()),
            spaces: Mutex::new(vec![]),
            rule: Mutex::new(String::new()),
            exhaustive: Mutex::new(true),
            assumptions: Mutex::new(vec![]),
            caps_hit: Mutex::new(vec![]),
        }
    }
    pub fn is_thorough(&self) -> bool {
        self.tier == "thorough"
    }
    pub fn eval(&self) {
        self.evals.fetch_add(1, Ordering::Relaxed);
    }
    pub fn add_stats(&self, st: &crate::lang::Stats) {
        self.states.fetch_add(st.states as u64, Ordering::Relaxed);
        self.transitions.fetch_add(st.transitions as u64, Ordering::Relaxed);
    }
    pub fn mark_nontrivial(&self, h: u64) {
        self.nontriv[(h & 63) as usize].lock().unwrap().insert(h);
    }
    pub fn sample(&self, v: Value) {
        let mut s = self.samples.lock().unwrap();
        if s.len() < 12 {
            s.push(v);
        }
    }
    pub fn want_sample(&self) -> bool {
        self.samples.lock().unwrap().len() < 12
    }
    pub fn machinery_error(&self, msg: String) {
        let mut m = self.machinery.lock().unwrap();
        if m.len() < 20 {
            m.push(msg);
        }
    }
    pub fn set_extra(&self, k: &str, v: Value) {
        self.extra.lock().unwrap().insert(k.to_string(), v);
    }
    pub fn add_extra_count(&self, k: &str, n: u64) {
        let mut e = self.extra.lock().unwrap();
        let cur = e.get(k).and_then(|v| v.as_u64()).unwrap_or(0);
        e.insert(k.to_string(), json!(cur + n));
    }
    pub fn space(&self, v: Value) {
        self.spaces.lock().unwrap().push(v);
    }
    pub fn cap_hit(&self, s: String) {
        *self.exhaustive.lock().unwrap() = false;
        let mut c = self.caps_hit.lock().unwrap();
        if c.len() < 20 {
            c.push(s);
        }
    }
    /// Record a violation that no known finding explains.
    pub fn violation(&self, v: Violation) {
        let mut m = self.viols.lock().unwrap();
        let b = m.entry(v.sig.clone()).or_insert(Bucket { count: 0, kept: vec![] });
        b.count += 1;
        b.kept.push(v);
        if b.kept.len() > 24 {
            b.kept.sort_by_key(|x| x.weight());
            b.kept.truncate(8);
        }
    }
    pub fn known(&self, id: &str, v: Violation) {
        let mut m = self.kf_hits.lock().unwrap();
        let e = m.entry(id.to_string()).or_insert((0, None));
        e.0 += 1;
        let better = match &e.1 {
            None => true,
            Some(old) => v.weight() < old.weight(),
        };
        if better {
            e.1 = Some(v);
        }
    }
    /// One line per violation signature (development scans).
    pub fn brief(&self) -> Vec<String> {
        let mut out = vec![];
        for (sig, b) in self.viols.lock().unwrap().iter() {
            let mut kept = b.kept.clone();
            kept.sort_by_key(|x| x.weight());
            if let Some(v) = kept.first() {
                out.push(format!("[{}] {sig}: {:?} {} -> {:?} {}", b.count, v.tcs, v.cfg.name(), v.out, v.detail));
            }
        }
        for (id, (n, _)) in self.kf_hits.lock().unwrap().iter() {
            out.push(format!("known {id}: {n}"));
        }
        for m in self.machinery.lock().unwrap().iter() {
            out.push(format!("MACHINERY {m}"));
        }
        out
    }
    pub fn violation_count(&self) -> u64 {
        self.viols.lock().unwrap().values().map(|b| b.count).sum()
    }

    /// Write evidence + replay files, print the verdict lines, return the exit code.
    pub fn finish(&self) -> i32 {
        let wall = self.t0.elapsed().as_secs_f64();
        let root = root();
        let machinery = self.machinery.lock().unwrap().clone();
        let nontriv: usize = self.nontriv.iter().map(|s| s.lock().unwrap().len()).sum::<usize>() + self.nontriv_counted.load(Ordering::Relaxed) as usize;
        let viols = self.viols.lock().unwrap();
        let total_viol: u64 = viols.values().map(|b| b.count).sum();
        let kf_hits = self.kf_hits.lock().unwrap();

        let mut cov = Map::new();
        cov.insert("evaluations".into(), json!(self.evals.load(Ordering::Relaxed)));
        cov.insert("distinct_nontrivial".into(), json!(nontriv));
        cov.insert("rule".into(), json!(self.rule.lock().unwrap().clone()));
        cov.insert("samples".into(), json!(self.samples.lock().unwrap().clone()));
        let st = self.states.load(Ordering::Relaxed);
        if st > 0 || self.level == "model_checking" {
            cov.insert("states".into(), json!(st));
            cov.insert("transitions".into(), json!(self.transitions.load(Ordering::Relaxed)));
            cov.insert("traces_validated_against_impl".into(), json!(self.traces.load(Ordering::Relaxed)));
        }
        cov.insert("exhaustive".into(), json!(*self.exhaustive.lock().unwrap()));
        cov.insert("spaces".into(), json!(self.spaces.lock().unwrap().clone()));
        let caps = self.caps_hit.lock().unwrap();
        if !caps.is_empty() {
            cov.insert("caps_hit".into(), json!(caps.clone()));
        }
        cov.insert(
            "known_findings_matched".into(),
            json!(kf_hits.iter().map(|(k, v)| json!({"id": k, "cases": v.0})).collect::<Vec<_>>()),
        );
        cov.insert(
            "violation_signatures".into(),
            json!(viols.iter().map(|(k, b)| json!({"signature": k, "cases": b.count})).collect::<Vec<_>>()),
        );
        for (k, v) in self.extra.lock().unwrap().iter() {
            cov.insert(k.clone(), v.clone());
        }
        let seed: i64 = std::env::var("VERIF_SEED").ok().and_then(|s| s.parse().ok()).unwrap_or(0);
        let ev = json!({
            "property_id": self.prop, "tier": self.tier, "seed": seed, "level": self.level,
            "coverage": Value::Object(cov),
            "assumptions": self.assumptions.lock().unwrap().clone(),
            "wall_s": (wall * 1000.0).round() / 1000.0,
            "violations": total_viol,
            "machinery_errors": machinery,
        });
        let evdir = format!("{root}/evidence");
        let _ = std::fs::create_dir_all(&evdir);
        let evpath = format!("{evdir}/{}.json", self.prop);
        if machinery.is_empty() {
            std::fs::write(&evpath, serde_json::to_string_pretty(&ev).unwrap() + "\n").expect("write evidence");
        }

        for (id, (n, sample)) in kf_hits.iter() {
            let what = self.kf.entries.iter().find(|e| &e.id == id).map(|e| e.what.clone()).unwrap_or_default();
            let ex = sample.as_ref().map(|v| format!(" e.g. {:?} {}", v.tcs, v.cfg.name())).unwrap_or_default();
            println!("KNOWN-FINDING: property={} {} [{}: {} explored cases;{}]", self.prop, what, id, n, ex);
        }
        if !machinery.is_empty() {
            for m in &machinery {
                eprintln!("MACHINERY-ERROR: {m}");
            }
            return 2;
        }
        let rdir = format!("{root}/replays/{}", self.prop);
        if total_viol > 0 {
            let _ = std::fs::remove_dir_all(&rdir);
            let _ = std::fs::create_dir_all(&rdir);
            // few replays per signature, smallest first; at most 12 VIOLATION lines, the rest summarised
            let mut printed = 0;
            let mut sigs: Vec<(&String, &Bucket)> = viols.iter().collect();
            sigs.sort_by_key(|(_, b)| b.kept.iter().map(|x| x.weight()).min());
            for (sig, b) in sigs.iter() {
                let mut kept = b.kept.clone();
                kept.sort_by_key(|x| x.weight());
                for v in kept.iter().take(if printed < 12 { 2 } else { 0 }) {
                    let mut h = DefaultHasher::new();
                    format!("{:?}{:?}{}{}", v.tcs, v.cfg, v.kind, v.sig).hash(&mut h);
                    let path = format!("{rdir}/{:016x}.json", h.finish());
                    std::fs::write(&path, serde_json::to_string_pretty(&v.to_json()).unwrap() + "\n").expect("write replay");
                    println!("VIOLATION property={} replay={}", self.prop, path);
                    println!("  signature: {sig} ({} cases)  input={:?} settings={} output={:?} detail={}", b.count, v.tcs, v.cfg.name(), v.out, v.detail);
                    printed += 1;
                }
            }
            for (sig, b) in sigs.iter() {
                println!("  [{} cases] {}", b.count, sig);
            }
            println!("{}: {} violations in {} signatures; evaluations={} wall={:.1}s", self.prop, total_viol, viols.len(), self.evals.load(Ordering::Relaxed), wall);
            return 1;
        }
        println!(
            "{} {}: held on everything explored; evaluations={} nontrivial={} states={} transitions={} traces={} wall={:.1}s",
            self.prop, self.tier, self.evals.load(Ordering::Relaxed), nontriv, st,
            self.transitions.load(Ordering::Relaxed), self.traces.load(Ordering::Relaxed), wall
        );
        0
    }
}
