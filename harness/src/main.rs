use vh::core::Ctx;
use vh::props;

fn main() {
    // subject panics are caught and reported as data; keep stderr quiet
    std::panic::set_hook(Box::new(|_| {}));
    let args: Vec<String> = std::env::args().collect();
    if args.len() < 3 {
        eprintln!("usage: vh <C01..C16> <quick|thorough> | vh replay <file> | vh selftest");
        std::process::exit(2);
    }
    let (id, tier) = (args[1].as_str(), args[2].as_str());
    // Resident-set watchdog: a check that runs away must end as a machinery error (exit 2), never take the
    // machine down or be mistaken for a verdict. Limit in GB via VERIF_MAX_RSS_GB (default 24).
    let limit_gb: u64 = std::env::var("VERIF_MAX_RSS_GB").ok().and_then(|s| s.parse().ok()).unwrap_or(24);
    let name = format!("{id} {tier}");
    std::thread::spawn(move || loop {
        std::thread::sleep(std::time::Duration::from_millis(500));
        if let Ok(s) = std::fs::read_to_string("/proc/self/statm") {
            let pages: u64 = s.split_whitespace().nth(1).and_then(|x| x.parse().ok()).unwrap_or(0);
            if pages * 4096 > limit_gb << 30 {
                eprintln!("MACHINERY-ERROR: {name}: resident set exceeded {limit_gb} GB; aborting (no verdict)");
                std::process::exit(2);
            }
        }
    });
    // Hang monitor: a build() that does not return is a violation of C07 (totality) when C07 is what is being
    // checked, and a machinery error (no verdict) for every other property. Child processes of the C07 families
    // have their own budgets and are exempt.
    if id.starts_with('C') && !id.contains("child") {
        let limit: u64 = std::env::var("VERIF_CASE_TIMEOUT_S").ok().and_then(|s| s.parse().ok()).unwrap_or(if tier == "thorough" { 900 } else { 150 });
        let (pid, ptier) = (id.to_string(), tier.to_string());
        std::thread::spawn(move || loop {
            std::thread::sleep(std::time::Duration::from_secs(2));
            if let Some((age, tcs, cfg)) = vh::cfgs::inflight::stuck(limit) {
                if pid == "C07" {
                    let root = vh::ev::root();
                    let dir = format!("{root}/replays/C07");
                    let _ = std::fs::create_dir_all(&dir);
                    let path = format!("{dir}/hang_{:016x}.json", vh::ev::hash_case(&tcs, &cfg));
                    let v = vh::ev::Violation { property: "C07".into(), kind: "panic".into(), sig: "build() did not return".into(), tcs: tcs.clone(), cfg, out: String::new(), detail: serde_json::json!({"running_for_s": age, "limit_s": limit}) };
                    let _ = std::fs::write(&path, serde_json::to_string_pretty(&v.to_json()).unwrap() + "\n");
                    println!("VIOLATION property=C07 replay={path}");
                    println!("  signature: build() did not return within {limit} s  input={:?} settings={}", tcs, cfg.name());
                    std::process::exit(1);
                }
                eprintln!("MACHINERY-ERROR: {pid} {ptier}: a build() has been running for {age} s (limit {limit}); input={:?} settings={} -- no verdict for {pid}; totality is C07's business", tcs, cfg.name());
                std::process::exit(2);
            }
        });
    }
    let mc = |f: fn(&Ctx)| {
        let ctx = Ctx::new(id, tier, "model_checking");
        f(&ctx);
        ctx.run.finish()
    };
    let ex = |f: fn(&Ctx)| {
        let ctx = Ctx::new(id, tier, "exploration");
        f(&ctx);
        ctx.run.finish()
    };
    let code = match id {
        "C01" => mc(props::c01::run),
        "C02" => mc(props::c02::run),
        "C03" => mc(props::c03::run),
        "C04" => mc(props::c04::run),
        "C05" => mc(props::c05::run),
        "C06" => mc(props::c06::run),
        "C08" => mc(props::c08::run),
        "C11" => mc(props::c11::run),
        "C16" => mc(props::c16::run),
        "C10" => mc(props::c10::run),
        "C07" => ex(props::c07::run),
        "C09" => ex(props::c09::run),
        "C12" => ex(props::c12::run),
        "C13" => ex(props::c13::run),
        "C14" => ex(props::c14::run),
        "C15" => ex(props::c15::run),
        "sizes" => {
            // planned block sizes per property (sets x settings), without running anything
            let t = tier == "thorough";
            let all: Vec<(&str, Vec<vh::sweep::Block>)> = vec![
                ("C01", props::c01::blocks(t)), ("C02", props::c02::blocks(t)), ("C03", props::c03::blocks(t)), ("C05", props::c05::blocks(t)),
                ("C06", props::c06::blocks(t)), ("C08", props::c08::blocks(t)), ("C11", props::c11::blocks(t)), ("C16", props::c16::blocks(t)),
            ];
            for (p, bs) in all {
                let mut tot = 0usize;
                for b in &bs {
                    let n = b.uni.len() * b.cfgs.len();
                    tot += n;
                    println!("{p} {:>10} = {:>8} sets x {:>5}  {} x {}", n, b.uni.len(), b.cfgs.len(), b.uni.name, b.cfg_desc);
                }
                println!("{p} TOTAL {tot}");
            }
            0
        }
        "replay" => vh::replay::replay(&args[2]),
        "selftest" => vh::selftest::run(),
        "C07-child" => props::c07::child(&args[2..]),
        "C10-child" => props::c10::child_lazy(&args[2..]),
        _ => {
            eprintln!("unknown command {id}");
            2
        }
    };
    std::process::exit(code);
}
