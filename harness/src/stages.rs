//! Snapshot (hook output) -> HIR / NFA per pipeline stage. No grex code is used to interpret a label:
//! a label (chars, min, max, nested) denotes (nested if present, else the concatenation of `chars`,
//! tokenised into shorthand-class tokens -- only when a class flag is on -- and literal scalars)
//! repeated min..=max times; literals are fold-closed under `i` exactly like in the spec.
use crate::cfgs::*;
use crate::lang::{self, Interner, Nfa};
use crate::spec::{token_class, Classes};
use grex::verif::{DfaSnap, GSnap, Stages};
use regex_syntax::hir::{Class, Hir, Repetition};
use std::collections::BTreeMap;

pub fn tok_hir(entry: &str, cfg: &Cfg, k: &Classes) -> Hir {
    let classes = cfg.bits & CLASS_BITS != 0;
    let cs: Vec<char> = entry.chars().collect();
    let mut out = vec![];
    let mut i = 0;
    while i < cs.len() {
        if classes && cs[i] == '\\' && i + 1 < cs.len() && "dDsSwW".contains(cs[i + 1]) {
            let tok: String = [cs[i], cs[i + 1]].iter().collect();
            out.push(Hir::class(Class::Unicode(token_class(&tok, k).clone())));
            i += 2;
        } else {
            out.push(lang::lit_char(cs[i], cfg.has(I)));
            i += 1;
        }
    }
    Hir::concat(out)
}

fn rep(body: Hir, min: u32, max: u32) -> Hir {
    if min == 1 && max == 1 {
        body
    } else {
        Hir::repetition(Repetition { min, max: Some(max), greedy: true, sub: Box::new(body) })
    }
}

/// Language of a label as the printer will render it (nested representation when present).
pub fn g_hir(g: &GSnap, cfg: &Cfg, k: &Classes) -> Hir {
    let body = if g.nested.is_empty() {
        Hir::concat(g.chars.iter().map(|e| tok_hir(e, cfg, k)).collect())
    } else {
        Hir::concat(g.nested.iter().map(|n| g_hir(n, cfg, k)).collect())
    };
    rep(body, g.min, g.max)
}

/// Language of a label by its flat value (what trie insertion and minimisation compare).
pub fn value_hir(g: &GSnap, cfg: &Cfg, k: &Classes) -> Hir {
    rep(Hir::concat(g.chars.iter().map(|e| tok_hir(e, cfg, k)).collect()), g.min, g.max)
}

pub fn cluster_hir(c: &[GSnap], cfg: &Cfg, k: &Classes) -> Hir {
    Hir::concat(c.iter().map(|g| g_hir(g, cfg, k)).collect())
}

pub fn clusters_hir(st: &Stages, cfg: &Cfg, k: &Classes) -> Hir {
    lang::anchored(Hir::alternation(st.clusters.iter().map(|c| cluster_hir(c, cfg, k)).collect()))
}

pub fn dfa_nfa(d: &DfaSnap, cfg: &Cfg, k: &Classes, it: &mut Interner, drop_initial_final: bool) -> Result<Nfa, String> {
    let idx: BTreeMap<usize, usize> = d.states.iter().enumerate().map(|(i, s)| (*s, i)).collect();
    let mut edges = vec![];
    for (a, b, g) in &d.edges {
        let (Some(a), Some(b)) = (idx.get(a), idx.get(b)) else { return Err("edge endpoint not a state".into()) };
        edges.push((*a, *b, g_hir(g, cfg, k)));
    }
    let start = *idx.get(&d.start).ok_or("start not a state")?;
    let finals: Vec<usize> = d.finals.iter().filter_map(|f| idx.get(f).copied()).filter(|f| !(drop_initial_final && *f == start)).collect();
    Nfa::from_graph(d.states.len(), start, &finals, &edges, it)
}

/// Reference trie with grex's *recorded* defective merge rule (KF-range-merge): edges are searched
/// newest-first; same character list and stored max + 1 == new max => widen to [min, max] and reuse the target;
/// same character list and same max => reuse; else add a new edge. With `merge` off it is the exact trie keyed by
/// (value, min, max).
pub fn model_trie(clusters: &[Vec<GSnap>], merge: bool) -> DfaSnap {
    let mut edges: Vec<Vec<(GSnap, usize)>> = vec![vec![]];
    let mut finals: Vec<usize> = vec![];
    for c in clusters {
        let mut cur = 0usize;
        for g in c {
            let mut found = None;
            for ei in (0..edges[cur].len()).rev() {
                let (eg, dst) = edges[cur][ei].clone();
                if eg.chars != g.chars {
                    continue;
                }
                if merge {
                    if eg.max + 1 == g.max {
                        edges[cur][ei].0 = GSnap { chars: g.chars.clone(), min: eg.min.min(g.min), max: eg.max.max(g.max), nested: vec![] };
                        found = Some(dst);
                        break;
                    } else if eg.max == g.max {
                        found = Some(dst);
                        break;
                    }
                } else if eg.min == g.min && eg.max == g.max {
                    found = Some(dst);
                    break;
                }
            }
            cur = match found {
                Some(d) => d,
                None => {
                    edges.push(vec![]);
                    let d = edges.len() - 1;
                    edges[cur].push((g.clone(), d));
                    d
                }
            };
        }
        if !finals.contains(&cur) {
            finals.push(cur);
        }
    }
    finals.sort_unstable();
    DfaSnap {
        start: 0,
        finals,
        states: (0..edges.len()).collect(),
        edges: edges.iter().enumerate().flat_map(|(a, v)| v.iter().map(move |(g, b)| (a, *b, g.clone()))).collect(),
    }
}

/// Stage snapshot of the real pipeline for (tcs, cfg), panics caught.
pub fn snapshot(tcs: &[String], cfg: &Cfg) -> Result<Stages, String> {
    let c = *cfg;
    std::panic::catch_unwind(move || grex::verif::stages(&c.builder(tcs))).map_err(panic_msg)
}
