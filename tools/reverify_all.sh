#!/usr/bin/env bash
# Re-verify every seeded change against the current /repo HEAD and re-run the checks that should catch it.
# Uses /repo (apply + restore) -- do not touch /repo while this runs.
cd /verif
declare -A CHECKS=(
 [C01-a]="C01 C02 C07" [C01-b]="C01 C03" [C02-a]="C02 C01 C07 C16" [C02-b]="C02 C16" [C03-a]="C03 C01" [C03-c]="C03"
 [C04-a]="C04" [C04-c]="C04" [C05-a]="C05 C01" [C05-b]="C05" [C06-a]="C06 C02" [C06-b]="C06" [C07-a]="C07 C01" [C07-c]="C07"
 [C08-a]="C08" [C08-b]="C08" [C09-a]="C09" [C09-c]="C09" [C10-a]="C10" [C10-b]="C10" [C11-a]="C11 C05" [C11-c]="C11"
 [C12-a]="C12" [C12-b]="C12" [C13-a]="C13" [C13-c]="C13" [C14-a]="C14" [C14-c]="C14" [C15-a]="C15" [C15-c]="C15" [C16-a]="C16 C02" [C16-b]="C16"
)
for s in $(ls seeded | sort); do
  echo "===== $s"
  if [ -f seeded/$s/demo.rs ]; then tools/verify_seed.sh seeded/$s | tail -4; fi
  tools/try_seed.sh seeded/$s quick ${CHECKS[$s]}
done
rm -rf /tmp/wt/verify_target
