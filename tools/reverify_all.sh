#!/usr/bin/env bash
# Re-verify every seeded change against the current /repo HEAD (re-basing patches where needed) and re-run the
# checks that caught it. Uses /repo itself (apply + restore): nothing else may touch /repo meanwhile.
# Writes seeded/SUMMARY.txt: one line per seed with the checks that report it.
cd /verif
: > seeded/SUMMARY.txt.new
for d in $(ls seeded | grep -v "^benign-\|SUMMARY" | sort); do
  id="${d%%-*}"
  if [ -f seeded/$d/SUPERSEDED ]; then echo "$d: superseded (see meta.json)" >> seeded/SUMMARY.txt.new; continue; fi
  prev=$(grep -h " rc=1 " seeded/$d/detect_quick.txt 2>/dev/null | awk '{print $1}' | sort -u | tr '\n' ' ')
  prev=$(echo $prev | tr ' ' '\n' | grep -v "^$id\$" | head -1 | tr '\n' ' ')
  checks="$id $prev"
  echo "===== $d ($checks)"
  # the demonstration and the suite are re-run only for seeds last verified against an older /repo HEAD
  if grep -qE "verified against /repo (322f1dd|cc466b2)" seeded/$d/verify.txt 2>/dev/null; then echo "(verified against current sources earlier: $(head -1 seeded/$d/verify.txt))";
  elif [ -f seeded/$d/demo.rs ] || [ -f seeded/$d/demo.py ]; then tools/verify_seed.sh seeded/$d | tail -4 | cut -c1-120; fi
  tools/try_seed.sh seeded/$d quick $checks | cut -c1-200
  hit=$(grep " rc=1 " seeded/$d/detect_quick.txt | awk '{print $1}' | tr '\n' ' ')
  echo "$d: ${hit:-NOT DETECTED}" >> seeded/SUMMARY.txt.new
done
for d in $(ls seeded | grep "^benign-" | sort); do
  tools/try_seed.sh seeded/$d quick > /dev/null
  hit=$(grep " rc=1 " seeded/$d/detect_quick.txt | awk '{print $1}' | tr '\n' ' ')
  echo "$d: ${hit:-silent (all 16 checks exit 0)}" >> seeded/SUMMARY.txt.new
done
mv seeded/SUMMARY.txt.new seeded/SUMMARY.txt
rm -rf /tmp/wt/verify_target /tmp/wt/verify_target_py /tmp/wt/verify_pymod
echo REVERIFY-DONE
