#!/usr/bin/env bash
# tools/summary.sh: rewrite seeded/SUMMARY.txt from the detect_quick.txt of every seed (no checks are run) and report
# every patch that does not apply to /repo HEAD.
cd /verif
: > seeded/SUMMARY.txt.new
for d in $(ls seeded | grep -v "SUMMARY" | sort); do
  [ -d seeded/$d ] || continue
  if [ -f seeded/$d/SUPERSEDED ]; then echo "$d: superseded (see meta.json)" >> seeded/SUMMARY.txt.new; continue; fi
  git -C /repo apply --check /verif/seeded/$d/patch.diff 2>/dev/null || { echo "$d: PATCH DOES NOT APPLY to /repo $(git -C /repo log --format=%h -1)" >> seeded/SUMMARY.txt.new; continue; }
  hit=$(grep " rc=1 " seeded/$d/detect_quick.txt 2>/dev/null | awk '{print $1}' | tr '\n' ' ')
  case $d in benign-*) echo "$d: ${hit:-silent (all 16 checks exit 0)}" >> seeded/SUMMARY.txt.new;; *) echo "$d: ${hit:-NOT DETECTED}" >> seeded/SUMMARY.txt.new;; esac
done
mv seeded/SUMMARY.txt.new seeded/SUMMARY.txt
grep -c . seeded/SUMMARY.txt; grep -E "NOT DETECTED|DOES NOT APPLY" seeded/SUMMARY.txt
