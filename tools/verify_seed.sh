#!/usr/bin/env bash
# tools/verify_seed.sh <seed dir>: confirm in a scratch worktree of /repo HEAD (outside /repo and /verif) that
#  (1) the demonstration passes on the unchanged tree, (2) the patch applies and compiles, (3) the whole existing
#  test suite passes with it, (4) the demonstration fails with it. Writes <seed dir>/verify.txt. Removes the worktree.
set -u
SEED="$(cd "$1" && pwd)"
WT=/tmp/wt/verify_$$
git -C /repo worktree add -q --detach "$WT" HEAD || exit 2
trap 'git -C /repo worktree remove --force "$WT" >/dev/null 2>&1' EXIT
cd "$WT" || exit 2
export CARGO_TARGET_DIR="/tmp/wt/verify_target"   # shared between verifications, removed by the caller when done
{
echo "verified against /repo $(git -C /repo log --format=%h -1) on $(date -u +%FT%TZ)"
if [ -f "$SEED/demo.rs" ]; then
  cp "$SEED/demo.rs" tests/demo_seed.rs
  cargo test --offline --test demo_seed >/tmp/wt/verify_demo_clean.log 2>&1; echo "demo on unchanged tree: exit $? ($(grep -E '^test result' /tmp/wt/verify_demo_clean.log | head -1))"
  rm -f tests/demo_seed.rs
fi
pybuild() { PYO3_PYTHON="$(command -v python3)" CARGO_TARGET_DIR=/tmp/wt/verify_target_py cargo build --release --offline --no-default-features --features "python pyo3/extension-module" --lib >/tmp/wt/verify_py_build.log 2>&1 && mkdir -p /tmp/wt/verify_pymod && cp /tmp/wt/verify_target_py/release/libgrex.so /tmp/wt/verify_pymod/grex.so; }
if [ -f "$SEED/demo.py" ]; then
  pybuild && { python3 "$SEED/demo.py" /tmp/wt/verify_pymod >/tmp/wt/verify_demo_clean.log 2>&1; echo "demo.py on unchanged tree: exit $? ($(tail -1 /tmp/wt/verify_demo_clean.log | cut -c1-80))"; } || echo "python extension does not build on unchanged tree"
fi
if ! git apply --3way "$SEED/patch.diff" 2>/tmp/wt/verify_apply.log; then echo "PATCH DOES NOT APPLY"; cat /tmp/wt/verify_apply.log; exit 1; fi
git reset -q
git diff > "$SEED/patch.rebased.diff"
cargo test --workspace --no-fail-fast --offline >/tmp/wt/verify_suite.log 2>&1; rc=$?
echo "existing suite with change: exit $rc; $(grep -E '^test result' /tmp/wt/verify_suite.log | awk '{p+=$4; f+=$6} END {print "passed="p" failed="f}')"
rm -f tests/*.proptest-regressions
if [ -f "$SEED/demo.rs" ]; then
  cp "$SEED/demo.rs" tests/demo_seed.rs
  cargo test --offline --test demo_seed >/tmp/wt/verify_demo_mut.log 2>&1; echo "demo with change: exit $? ($(grep -E '^test result' /tmp/wt/verify_demo_mut.log | head -1))"
  rm -f tests/demo_seed.rs
fi
if [ -f "$SEED/demo.py" ]; then
  pybuild && { python3 "$SEED/demo.py" /tmp/wt/verify_pymod >/tmp/wt/verify_demo_mut.log 2>&1; echo "demo.py with change: exit $? ($(tail -1 /tmp/wt/verify_demo_mut.log | cut -c1-80))"; } || echo "python extension does not build with change"
fi
} | tee "$SEED/verify.txt"
if [ ! -s "$SEED/patch.rebased.diff" ]; then rm -f "$SEED/patch.rebased.diff"; # nothing was re-based (the patch did not apply, or nothing to do)
elif cmp -s "$SEED/patch.diff" "$SEED/patch.rebased.diff"; then rm -f "$SEED/patch.rebased.diff"; else mv "$SEED/patch.rebased.diff" "$SEED/patch.diff"; echo "patch.diff re-based onto current /repo HEAD" | tee -a "$SEED/verify.txt"; fi
