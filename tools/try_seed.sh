#!/usr/bin/env bash
# tools/try_seed.sh <seed dir with patch.diff> [tier] [property ids...]
# Applies the seeded change to /repo, runs the listed checks (default: all quick), records which ones
# raise an alarm, and ALWAYS restores /repo afterwards. Never commits anything in /repo.
set -u
SEED="$(cd "$1" && pwd)"; shift
TIER="${1:-quick}"; shift || true
IDS=("$@")
[ ${#IDS[@]} -eq 0 ] && IDS=(C01 C02 C03 C04 C05 C06 C07 C08 C09 C10 C11 C12 C13 C14 C15 C16)
cd /repo || exit 2
if [ -n "$(git status --porcelain --untracked-files=no)" ]; then echo "/repo is dirty; refusing" >&2; exit 2; fi
# a patch that no longer applies must not leave an earlier detection record standing
git apply --check "$SEED/patch.diff" || { echo "PATCH DOES NOT APPLY to /repo $(git log --format=%h -1)" | tee "$SEED/detect_${TIER}.txt" >&2; exit 2; }
git apply "$SEED/patch.diff"
trap 'cd /repo && git checkout -- . && git status --porcelain --untracked-files=no | head' EXIT
OUT="$SEED/detect_${TIER}.txt"; : > "$OUT"
mkdir -p /verif/.cache/evidence_backup && cp -a /verif/evidence/. /verif/.cache/evidence_backup/
for id in "${IDS[@]}"; do
  s=$(date +%s)
  /verif/check "$id" "$TIER" > "/verif/.cache/seed_run_$id.log" 2>&1; rc=$?
  e=$(date +%s)
  first=$(grep -m1 -A1 '^VIOLATION' "/verif/.cache/seed_run_$id.log" | tail -1 | cut -c1-300)
  echo "$id rc=$rc t=$((e-s))s $first" | tee -a "$OUT"
done
# evidence written under a mutated tree is not evidence of anything: restore
cp -a /verif/.cache/evidence_backup/. /verif/evidence/
