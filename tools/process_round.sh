#!/usr/bin/env bash
# tools/process_round.sh <round letter> <ID>...   e.g. process_round.sh f C01 C02
# Copies the deliverables of sub-agents from /tmp/wt/<ID><r>-out to seeded/<ID>-<r>, verifies each in a scratch
# worktree and runs the property's own quick check (plus C01) against it. One summary block per seed.
r="$1"; shift
cd /verif
for id in "$@"; do
  src="/tmp/wt/${id}${r}-out"; dst="seeded/${id}-${r}"
  [ -f "$src/patch.diff" ] || { echo "== $id-$r: no patch.diff in $src"; continue; }
  mkdir -p "$dst"; cp "$src/patch.diff" "$src/meta.json" "$dst/" 2>/dev/null; cp "$src"/demo.* "$dst/" 2>/dev/null
  echo "== $id-$r: $(python3 -c "import json,sys; print(json.load(open('$dst/meta.json')).get('summary','')[:300])" 2>/dev/null)"
  if [ -f "$dst/demo.rs" ] || [ -f "$dst/demo.py" ]; then tools/verify_seed.sh "$dst" | tail -4 | cut -c1-110; fi
  extra="C01"; [ "$id" = "C01" ] && extra="C02"
  tools/try_seed.sh "$dst" quick "$id" $extra | cut -c1-330
done
rm -rf /tmp/wt/verify_target /tmp/wt/verify_target_py /tmp/wt/verify_pymod
